// C15: printed forms are exact ISO-8601 and parse back to the same value.
#include "acetime_all.h"
#include "verif.h"
#include "civil.h"
#include "dbtraits.h"
using namespace ace_time;
using namespace verif;
struct DayRow { int16_t y; uint8_t m, d; int32_t epochDays; uint8_t wd; uint8_t leap; uint8_t dim; uint8_t pad; };
static const char* WD[] = {"Error", "Monday", "Tuesday", "Wednesday", "Thursday", "Friday", "Saturday", "Sunday"};
static CapturePrint cp;
template <class T> static const std::string& pr(const T& v) { cp.clear(); v.printTo(cp); return cp.s; }
static std::string off_text(int m) { int a = m < 0 ? -m : m; return fmt("%c%02d:%02d", m < 0 ? '-' : '+', a / 60, a % 60); }

int main(int argc, char** argv) {
  Args a = parse_args(argc, argv);
  Counters c;
  std::vector<DayRow> tab; { FILE* f = fopen(a.get("table").c_str(), "rb"); if (!f) return 3; DayRow r; while (fread(&r, sizeof r, 1, f) == 1) tab.push_back(r); fclose(f); }
  // ---- dates x times
  static const int times5[][3] = {{0, 0, 0}, {23, 59, 59}, {12, 34, 56}, {1, 2, 3}, {9, 9, 9}};
  for (size_t i = a.shard; i < tab.size(); i += a.nshards) {
    const DayRow& r = tab[i];
    journal("date", r.y, r.m, r.d);
    LocalDate ld = LocalDate::forComponents(r.y, r.m, r.d);
    std::string want = fmt("%04d-%02d-%02d %s", r.y, r.m, r.d, WD[r.wd]);
    if (pr(ld) != want) violation("c15:LocalDate-print", fmt("{\"got\":%s,\"want\":%s}", jstr(cp.s).c_str(), jstr(want).c_str()));
    LocalDate back = LocalDate::forDateString(want.substr(0, 10).c_str());
    if (!(back == ld)) violation("c15:LocalDate-parse", fmt("{\"text\":%s}", jstr(want).c_str()));
    for (auto& t : times5) {
      LocalDateTime l = LocalDateTime::forComponents(r.y, r.m, r.d, t[0], t[1], t[2]);
      std::string w = fmt("%04d-%02d-%02dT%02d:%02d:%02d", r.y, r.m, r.d, t[0], t[1], t[2]);
      if (pr(l) != w) violation("c15:LocalDateTime-print", fmt("{\"got\":%s,\"want\":%s}", jstr(cp.s).c_str(), jstr(w).c_str()));
      LocalDateTime b = LocalDateTime::forDateString(w.c_str());
      if (!(b == l)) violation("c15:LocalDateTime-parse", fmt("{\"text\":%s}", jstr(w).c_str()));
      LocalDateTime bf = LocalDateTime::forDateString(FPSTR(w.c_str()));
      if (!(bf == l)) violation("c15:LocalDateTime-parse-F", fmt("{\"text\":%s}", jstr(w).c_str()));
      c.add("local_datetimes");
    }
    // every date x every hour, every minute, every second (one field swept, the other two derived from it): pairwise
    // interactions between the date and each time field
    for (int axis = 0; axis < 3; axis++) for (int v = 0; v < (axis == 0 ? 24 : 60); v++) {
      int h = axis == 0 ? v : (v * 5 + r.d) % 24, mi = axis == 1 ? v : (v * 7 + r.m) % 60, se = axis == 2 ? v : (v * 11 + r.d) % 60;
      LocalDateTime l = LocalDateTime::forComponents(r.y, r.m, r.d, h, mi, se);
      std::string w = fmt("%04d-%02d-%02dT%02d:%02d:%02d", r.y, r.m, r.d, h, mi, se);
      if (pr(l) != w) violation("c15:LocalDateTime-print", fmt("{\"got\":%s,\"want\":%s}", jstr(cp.s).c_str(), jstr(w).c_str()));
      LocalDateTime b = LocalDateTime::forDateString(w.c_str());
      if (!(b == l) || b.isError()) violation("c15:LocalDateTime-parse", fmt("{\"text\":%s}", jstr(w).c_str()));
      c.add("local_datetimes");
    }
    // the same month and day 2^5 / 2^6 / 2^7 years away printed immediately before: printing is a pure function of the value
    for (int dy : {128, -128, 64, -64, 32, -32}) {
      int oy = r.y + dy; if (oy < 1873 || oy > 2127 || (r.m == 2 && r.d == 29)) continue;
      LocalDateTime o = LocalDateTime::forComponents(oy, r.m, r.d, 1, 2, 3);
      { std::string wo = fmt("%04d-%02d-%02dT01:02:03", oy, r.m, r.d);   // both prints are judged (the date printed before o is r's own)
        if (pr(o) != wo) violation("c15:LocalDateTime-print-depends-on-previous-print", fmt("{\"got\":%s,\"want\":%s,\"previous_year\":%d}", jstr(cp.s).c_str(), jstr(wo).c_str(), r.y)); }
      LocalDateTime l = LocalDateTime::forComponents(r.y, r.m, r.d, 1, 2, 3);
      std::string w = fmt("%04d-%02d-%02dT01:02:03", r.y, r.m, r.d);
      if (pr(l) != w) violation("c15:LocalDateTime-print-depends-on-previous-print", fmt("{\"got\":%s,\"want\":%s,\"previous_year\":%d}", jstr(cp.s).c_str(), jstr(w).c_str(), oy));
      OffsetDateTime od = OffsetDateTime::forComponents(r.y, r.m, r.d, 1, 2, 3, TimeOffset::forMinutes(90)); (void)pr(OffsetDateTime::forComponents(oy, r.m, r.d, 1, 2, 3, TimeOffset::forMinutes(90)));
      if (pr(od) != w + "+01:30") violation("c15:OffsetDateTime-print-depends-on-previous-print", fmt("{\"got\":%s,\"want\":%s}", jstr(cp.s).c_str(), jstr(w + "+01:30").c_str()));
      LocalDate ld0 = LocalDate::forComponents(oy, r.m, r.d); (void)pr(ld0);
      if (pr(ld).substr(0, 10) != w.substr(0, 10)) violation("c15:LocalDate-print-depends-on-previous-print", fmt("{\"got\":%s}", jstr(cp.s).c_str()));
      c.add("print_reorder_checks");
    }
    // boundary dates x all offsets
    bool boundary = (r.d == 1 || r.d == r.dim || (r.m == 2 && r.d >= 28)) && (r.y % 16 == (int)(a.seed % 16) || r.y <= 1874 || r.y >= 2126 || r.y == 2000);
    if (boundary) {
      for (int m = -5999; m <= 5999; m++) {
        OffsetDateTime o = OffsetDateTime::forComponents(r.y, r.m, r.d, 23, 59, 58, TimeOffset::forMinutes(m));
        std::string w = fmt("%04d-%02d-%02dT23:59:58", r.y, r.m, r.d) + off_text(m);
        if (pr(o) != w) violation("c15:OffsetDateTime-print", fmt("{\"got\":%s,\"want\":%s}", jstr(cp.s).c_str(), jstr(w).c_str()));
        OffsetDateTime b = OffsetDateTime::forDateString(w.c_str());
        if (!(b == o)) violation("c15:OffsetDateTime-parse", fmt("{\"text\":%s}", jstr(w).c_str()));
        c.add("offset_datetimes");
      }
      c.add("boundary_dates");
    }
  }
  // ---- all 86,400 times x 4 dates
  static const int dates4[][3] = {{1873, 1, 1}, {2000, 2, 29}, {2038, 1, 19}, {2127, 12, 31}};
  for (int s = a.shard; s < 86400; s += a.nshards) {
    int h = s / 3600, mi = s % 3600 / 60, se = s % 60;
    LocalTime lt = LocalTime::forComponents(h, mi, se);
    std::string w = fmt("%02d:%02d:%02d", h, mi, se);
    if (pr(lt) != w) violation("c15:LocalTime-print", fmt("{\"got\":%s,\"want\":%s}", jstr(cp.s).c_str(), jstr(w).c_str()));
    if (!(LocalTime::forTimeString(w.c_str()) == lt)) violation("c15:LocalTime-parse", fmt("{\"text\":%s}", jstr(w).c_str()));
    for (auto& d : dates4) {
      LocalDateTime l = LocalDateTime::forComponents(d[0], d[1], d[2], h, mi, se);
      std::string w2 = fmt("%04d-%02d-%02dT", d[0], d[1], d[2]) + w;
      if (pr(l) != w2) violation("c15:LocalDateTime-print", fmt("{\"got\":%s,\"want\":%s}", jstr(cp.s).c_str(), jstr(w2).c_str()));
      if (!(LocalDateTime::forDateString(w2.c_str()) == l)) violation("c15:LocalDateTime-parse", fmt("{\"text\":%s}", jstr(w2).c_str()));
      c.add("local_datetimes");
    }
    c.add("local_times");
  }
  // ---- offset date-times at EVERY second of the days around special epoch values (int32 epoch-seconds limits = the value
  //      that doubles as kInvalidEpochSeconds, the AceTime and Unix epochs, the Unix 2038 limit) x 6 offsets
  {
    static const int days[][3] = {{1931, 12, 13}, {1931, 12, 14}, {2068, 1, 18}, {2068, 1, 19}, {1999, 12, 31}, {2000, 1, 1}, {1970, 1, 1}, {2038, 1, 19}};
    static const int offs[] = {0, 60, -480, 570, -1, 840};
    for (int s = a.shard; s < 86400; s += a.nshards) {
      int h = s / 3600, mi = s % 3600 / 60, se = s % 60;
      for (auto& d : days) for (int m : offs) {
        OffsetDateTime o = OffsetDateTime::forComponents(d[0], d[1], d[2], h, mi, se, TimeOffset::forMinutes(m));
        std::string w = fmt("%04d-%02d-%02dT%02d:%02d:%02d", d[0], d[1], d[2], h, mi, se) + off_text(m);
        if (pr(o) != w) violation("c15:OffsetDateTime-print", fmt("{\"got\":%s,\"want\":%s}", jstr(cp.s).c_str(), jstr(w).c_str()));
        OffsetDateTime b = OffsetDateTime::forDateString(w.c_str());
        if (!(b == o) || b.isError()) violation("c15:OffsetDateTime-parse", fmt("{\"text\":%s}", jstr(w).c_str()));
        OffsetDateTime bf = OffsetDateTime::forDateString(FPSTR(w.c_str()));
        if (!(bf == o) || bf.isError()) violation("c15:OffsetDateTime-parse-F", fmt("{\"text\":%s}", jstr(w).c_str()));
        c.add("offset_datetimes");
      }
    }
  }
  if (a.shard == 0) {
    // ---- offsets within +-99:59
    for (int m = -5999; m <= 5999; m++) {
      TimeOffset o = TimeOffset::forMinutes(m); std::string w = off_text(m);
      if (pr(o) != w) violation("c15:TimeOffset-print", fmt("{\"minutes\":%d,\"got\":%s,\"want\":%s}", m, jstr(cp.s).c_str(), jstr(w).c_str()));
      TimeOffset b = TimeOffset::forOffsetString(w.c_str());
      if (b.isError() || b.toMinutes() != m) violation("c15:TimeOffset-parse", fmt("{\"text\":%s,\"got\":%d}", jstr(w).c_str(), b.toMinutes()));
      c.add("offsets");
    }
    // ---- error placeholders
    struct { std::string got, want; } ph[] = {
      {pr(LocalDate::forError()), "<Invalid LocalDate>"}, {pr(LocalTime::forError()), "<Invalid LocalTime>"}, {pr(LocalDateTime::forError()), "<Invalid LocalDateTime>"},
      {pr(OffsetDateTime::forError()), "<Invalid OffsetDateTime>"}, {pr(ZonedDateTime::forError()), "<Invalid ZonedDateTime>"}, {pr(TimeZone::forError()), "<Error>"},
      {pr(LocalDateTime::forComponents(2000, 13, 1, 0, 0, 0)), "<Invalid LocalDateTime>"}, {pr(OffsetDateTime::forEpochSeconds(LocalDate::kInvalidEpochSeconds, TimeOffset())), "<Invalid OffsetDateTime>"} };
    for (auto& p : ph) { if (p.got != p.want) violation("c15:error-placeholder", fmt("{\"got\":%s,\"want\":%s}", jstr(p.got).c_str(), jstr(p.want).c_str())); c.add("placeholders"); }
    { CapturePrint q; TimeZone::forError().printShortTo(q); if (q.s != "<Error>") violation("c15:error-placeholder", "{\"what\":\"TimeZone::printShortTo\"}"); }
    // ---- too-short strings
    std::string full = "2020-02-29T12:34:56+01:00";
    for (size_t len = 0; len < full.size(); len++) {
      std::string s = full.substr(0, len);
      char* hp = (char*)malloc(len + 1); memcpy(hp, s.c_str(), len + 1);
      if (len < 10 && !LocalDate::forDateString(hp).isError()) violation("c15:short-not-error:LocalDate", fmt("{\"text\":%s}", jstr(s).c_str()));
      if (len < 19 && !LocalDateTime::forDateString(hp).isError()) violation("c15:short-not-error:LocalDateTime", fmt("{\"text\":%s}", jstr(s).c_str()));
      if (len < 25 && !OffsetDateTime::forDateString(hp).isError()) violation("c15:short-not-error:OffsetDateTime", fmt("{\"text\":%s}", jstr(s).c_str()));
      if (len < 25 && !ZonedDateTime::forDateString(hp).isError()) violation("c15:short-not-error:ZonedDateTime", fmt("{\"text\":%s}", jstr(s).c_str()));
      if (len < 19 && !LocalDateTime::forDateString(FPSTR(hp)).isError()) violation("c15:short-not-error:LocalDateTime-F", fmt("{\"text\":%s}", jstr(s).c_str()));
      std::string ts = std::string("12:34:56").substr(0, std::min<size_t>(len, 8)); if (ts.size() < 8 && !LocalTime::forTimeString(ts.c_str()).isError()) violation("c15:short-not-error:LocalTime", fmt("{\"text\":%s}", jstr(ts).c_str()));
      std::string os = std::string("+01:00").substr(0, std::min<size_t>(len, 6)); if (os.size() < 6 && !TimeOffset::forOffsetString(os.c_str()).isError()) violation("c15:short-not-error:TimeOffset", fmt("{\"text\":%s}", jstr(os).c_str()));
      free(hp); c.add("short_strings");
    }
    if (!LocalDateTime::forDateString(F("2020-02-29T12:34:56x")).isError()) violation("c15:too-long-F-not-error:LocalDateTime", "{}");
    if (!OffsetDateTime::forDateString(F("2020-02-29T12:34:56+01:00x")).isError()) violation("c15:too-long-F-not-error:OffsetDateTime", "{}");
    if (TimeOffset::forOffsetString("+01:000").isError() == false) violation("c15:too-long-offset-not-error", "{}");
    // manual zones
    for (int sm = -960; sm <= 960; sm += 15) for (int dm : {0, 60, -60, 30}) {
      TimeZone tz = TimeZone::forTimeOffset(TimeOffset::forMinutes(sm), TimeOffset::forMinutes(dm));
      std::string w = (sm == 0 && dm == 0) ? "UTC" : off_text(sm) + off_text(dm);
      if (pr(tz) != w) violation("c15:manual-zone-print", fmt("{\"std\":%d,\"dst\":%d,\"got\":%s,\"want\":%s}", sm, dm, jstr(cp.s).c_str(), jstr(w).c_str()));
      CapturePrint q; tz.printShortTo(q); std::string ws = (sm == 0 && dm == 0) ? "UTC" : off_text(sm + dm) + (dm ? "(DST)" : "(STD)");
      if (q.s != ws) violation("c15:manual-zone-printShort", fmt("{\"std\":%d,\"dst\":%d,\"got\":%s,\"want\":%s}", sm, dm, jstr(q.s).c_str(), jstr(ws).c_str()));
      c.add("manual_zones");
    }
  }
  // ---- zoned date-times for every zone of both databases, direct and managed
  static const int64_t inst[] = {civil::epoch2000_from_fields(2005, 1, 15, 12, 0, 1), civil::epoch2000_from_fields(2020, 7, 15, 23, 59, 59), civil::epoch2000_from_fields(2049, 12, 31, 0, 0, 0)};
  ExtendedZoneManager<2> xm(zonedbx::kZoneRegistrySize, zonedbx::kZoneRegistry);
  BasicZoneManager<2> bm(zonedb::kZoneRegistrySize, zonedb::kZoneRegistry);
  auto zone_checks = [&](const TimeZone& tz, const char* name) {
    const char* sl = strrchr(name, '/'); std::string shortn = sl ? sl + 1 : name;
    if (pr(tz) != name) violation("c15:zone-print", fmt("{\"zone\":\"%s\",\"got\":%s}", name, jstr(cp.s).c_str()));
    CapturePrint q; tz.printShortTo(q); if (q.s != shortn) violation("c15:zone-printShort", fmt("{\"zone\":\"%s\",\"got\":%s}", name, jstr(q.s).c_str()));
    for (int64_t t : inst) {
      ZonedDateTime z = ZonedDateTime::forEpochSeconds((acetime_t)t, tz);
      civil::Fields f = civil::fields_from_epoch2000(t + z.timeOffset().toSeconds());
      std::string w = fmt("%04lld-%02u-%02uT%02u:%02u:%02u", (long long)f.y, f.mo, f.d, f.h, f.mi, f.s) + off_text(z.timeOffset().toMinutes()) + "[" + name + "]";
      if (pr(z) != w) violation("c15:ZonedDateTime-print", fmt("{\"zone\":\"%s\",\"got\":%s,\"want\":%s}", name, jstr(cp.s).c_str(), jstr(w).c_str()));
      ZonedDateTime b = ZonedDateTime::forDateString(w.c_str());
      if (b.isError() || b.toEpochSeconds() != t || b.timeOffset().toMinutes() != z.timeOffset().toMinutes()) violation("c15:ZonedDateTime-parse", fmt("{\"text\":%s,\"got_epoch\":%d}", jstr(w).c_str(), b.toEpochSeconds()));
      c.add("zoned_datetimes");
    }
  };
  for (int zi = a.shard; zi < ExtDb::size(); zi += a.nshards) { ExtendedZoneProcessor p; zone_checks(TimeZone::forZoneInfo(ExtDb::info(zi), &p), ExtDb::name(ExtDb::info(zi))); zone_checks(xm.createForZoneIndex(zi), ExtDb::name(ExtDb::info(zi))); c.add("zone_names"); }
  for (int zi = a.shard; zi < BasicDb::size(); zi += a.nshards) { BasicZoneProcessor p; zone_checks(TimeZone::forZoneInfo(BasicDb::info(zi), &p), BasicDb::name(BasicDb::info(zi))); zone_checks(bm.createForZoneIndex(zi), BasicDb::name(BasicDb::info(zi))); c.add("zone_names"); }
  if (a.shard == 0) { sample("{\"value\":\"OffsetDateTime(2000-02-29T23:59:58, -00:45)\",\"text\":\"2000-02-29T23:59:58-00:45\"}"); sample("{\"value\":\"ZonedDateTime 2020-07-15T23:59:59Z in America/Los_Angeles\",\"text\":\"2020-07-15T16:59:59-07:00[America/Los_Angeles]\"}"); }
  done(c);
  return 0;
}
