// Read-only access to private processor state through class names that the
// library headers already declare as friends (no source change needed).
#ifndef VERIF_FRIENDS_H
#define VERIF_FRIENDS_H
#include "acetime_all.h"
#include <string>
// friend of both ExtendedZoneProcessor and TransitionStorage<SIZE>
class TransitionStorageTest_findTransitionForDateTime {
 public:
  static std::string key(const ace_time::ExtendedZoneProcessor& p) {
    char b[256];
    std::string k;
    snprintf(b, sizeof b, "X[%p y%d f%d m%d ", p.mZoneInfo.zoneInfo(), p.mYear, (int)p.mIsFilled, p.mNumMatches);
    k = b;
    if (p.mIsFilled || p.mNumMatches) {
      const auto& ts = p.mTransitionStorage;
      snprintf(b, sizeof b, "i%d,%d,%d:", ts.mIndexPrior, ts.mIndexCandidates, ts.mIndexFree); k += b;
      for (uint8_t i = 0; i < ts.mIndexFree && i < 8; i++) {
        const ace_time::extended::Transition* t = ts.mTransitions[i];
        snprintf(b, sizeof b, "(%d,%d,%d,%s,%d-%d-%d/%d)", t->startEpochSeconds, t->offsetMinutes, t->deltaMinutes, t->abbrev,
                 t->startDateTime.yearTiny, t->startDateTime.month, t->startDateTime.day, t->startDateTime.minutes);
        k += b;
      }
    }
    return k + "]";
  }
  static int capacity() { return ace_time::ExtendedZoneProcessor::kMaxTransitions; }
  static int indexFree(const ace_time::ExtendedZoneProcessor& p) { return p.mTransitionStorage.mIndexFree; }
  static int indexPrior(const ace_time::ExtendedZoneProcessor& p) { return p.mTransitionStorage.mIndexPrior; }
  static int indexCandidates(const ace_time::ExtendedZoneProcessor& p) { return p.mTransitionStorage.mIndexCandidates; }
  static bool isFilled(const ace_time::ExtendedZoneProcessor& p) { return p.mIsFilled; }
  static int year(const ace_time::ExtendedZoneProcessor& p) { return p.mYear; }
};
class BasicZoneProcessorTest_init {
 public:
  static std::string key(const ace_time::BasicZoneProcessor& p) {
    char b[256]; std::string k;
    snprintf(b, sizeof b, "B[%p y%d f%d n%d:", p.mZoneInfo.zoneInfo(), p.mYearTiny, (int)p.mIsFilled, p.mNumTransitions); k = b;
    for (uint8_t i = 0; i < p.mNumTransitions && i < 5; i++) {
      const ace_time::basic::Transition& t = p.mTransitions[i];
      snprintf(b, sizeof b, "(%d,%d,%d,%s)", t.startEpochSeconds, t.offsetMinutes, t.deltaMinutes, t.abbrev); k += b;
    }
    return k + "]";
  }
  static int capacity() { return ace_time::BasicZoneProcessor::kMaxCacheEntries; }
  static int numTransitions(const ace_time::BasicZoneProcessor& p) { return p.mNumTransitions; }
  static bool isFilled(const ace_time::BasicZoneProcessor& p) { return p.mIsFilled; }
};
inline std::string proc_key(const ace_time::ExtendedZoneProcessor& p) { return TransitionStorageTest_findTransitionForDateTime::key(p); }
inline std::string proc_key(const ace_time::BasicZoneProcessor& p) { return BasicZoneProcessorTest_init::key(p); }
#endif
