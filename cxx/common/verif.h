// Shared driver plumbing: sharding arguments, JSON-lines reporting, crash journal.
#ifndef VERIF_COMMON_H
#define VERIF_COMMON_H
#include <stdint.h>
#include <stdio.h>
#include <stdlib.h>
#include <string.h>
#include <signal.h>
#include <unistd.h>
#include <stdarg.h>
#include <string>
#include <vector>
#include <map>
#include <set>
#include <functional>

namespace verif {

struct Args {
  int shard = 0, nshards = 1;
  bool thorough = false;
  uint64_t seed = 0;
  std::map<std::string, std::string> kv;
  std::string get(const char* k, const char* dflt = "") const {
    auto it = kv.find(k); return it == kv.end() ? dflt : it->second;
  }
  long getl(const char* k, long dflt) const {
    auto it = kv.find(k); return it == kv.end() ? dflt : atol(it->second.c_str());
  }
};

// Journal: the case being executed right now; dumped by the signal handler so
// that a crash / sanitizer abort / watchdog alarm is attributed to an exact input.
static char g_journal[512] = "none";
static volatile int64_t g_j0, g_j1, g_j2, g_j3;
static const char* volatile g_jtag = "none";
inline void journal(const char* tag, int64_t a = 0, int64_t b = 0, int64_t c = 0, int64_t d = 0) {
  g_jtag = tag; g_j0 = a; g_j1 = b; g_j2 = c; g_j3 = d;
}
static void on_signal(int sig) {
  char buf[700];
  int n = snprintf(buf, sizeof buf,
      "\n{\"type\":\"crash\",\"signal\":%d,\"tag\":\"%s\",\"j\":[%lld,%lld,%lld,%lld],\"text\":\"%s\"}\n",
      sig, g_jtag, (long long)g_j0, (long long)g_j1, (long long)g_j2, (long long)g_j3, g_journal);
  ssize_t r = write(1, buf, n); (void)r;
  _exit(sig == SIGALRM ? 98 : 99);
}
inline void install_handlers() {
  signal(SIGSEGV, on_signal); signal(SIGABRT, on_signal); signal(SIGBUS, on_signal);
  signal(SIGFPE, on_signal); signal(SIGALRM, on_signal); signal(SIGILL, on_signal);
}

inline Args parse_args(int argc, char** argv) {
  Args a;
  for (int i = 1; i < argc; i++) {
    std::string s = argv[i];
    size_t eq = s.find('=');
    if (s.rfind("--", 0) == 0 && eq != std::string::npos) {
      std::string k = s.substr(2, eq - 2), v = s.substr(eq + 1);
      if (k == "shard") { sscanf(v.c_str(), "%d/%d", &a.shard, &a.nshards); }
      else if (k == "tier") a.thorough = (v == "thorough");
      else if (k == "seed") a.seed = strtoull(v.c_str(), 0, 10);
      else a.kv[k] = v;
    }
  }
  install_handlers();
  setvbuf(stdout, nullptr, _IOLBF, 1 << 16);
  return a;
}

inline std::string jstr(const std::string& s) {
  std::string o = "\"";
  for (unsigned char c : s) {
    if (c == '"' || c == '\\') { o += '\\'; o += c; }
    else if (c < 0x20 || c >= 0x7f) { char b[8]; snprintf(b, sizeof b, "\\u%04x", c); o += b; }
    else o += c;
  }
  return o + "\"";
}

// Counters summed over shards by the runner.
struct Counters {
  std::map<std::string, uint64_t> c;
  void add(const char* k, uint64_t n = 1) { c[k] += n; }
  void emit() {
    printf("{\"type\":\"counts\"");
    for (auto& kv : c) printf(",%s:%llu", jstr(kv.first).c_str(), (unsigned long long)kv.second);
    printf("}\n");
  }
};

static int g_violations_emitted = 0;
static std::map<std::string, int> g_viol_per_key;
// key: stable identity of WHAT fails; detail: JSON object text with the input.
// At most `cap` violations per key are printed in full (the count is still reported).
inline void violation(const std::string& key, const std::string& detail_json, int cap = 3) {
  int& n = g_viol_per_key[key];
  n++;
  if (n <= cap) {
    printf("{\"type\":\"violation\",\"key\":%s,\"detail\":%s}\n", jstr(key).c_str(), detail_json.c_str());
    g_violations_emitted++;
  }
}
inline void emit_violation_totals() {
  for (auto& kv : g_viol_per_key)
    printf("{\"type\":\"violation_total\",\"key\":%s,\"n\":%d}\n", jstr(kv.first).c_str(), kv.second);
}
static int g_samples = 0;
inline void sample(const std::string& json, int cap = 6) {
  if (g_samples++ < cap) printf("{\"type\":\"sample\",\"v\":%s}\n", json.c_str());
}
inline void done(Counters& c) { c.emit(); emit_violation_totals(); printf("{\"type\":\"done\"}\n"); fflush(stdout); }

// printf-style std::string
inline std::string fmt(const char* f, ...) __attribute__((format(printf, 1, 2)));
inline std::string fmt(const char* f, ...) {
  char b[1024]; va_list ap; va_start(ap, f); vsnprintf(b, sizeof b, f, ap); va_end(ap); return b;
}

}  // namespace verif

// Print sink capturing into memory.
#include <Print.h>
class CapturePrint : public Print {
 public:
  std::string s;
  size_t write(uint8_t c) override { s.push_back((char)c); return 1; }
  void clear() { s.clear(); }
};

#ifndef VERIF_NO_MILLIS
unsigned long g_fake_millis = 0;
extern "C" unsigned long millis() { return g_fake_millis; }
VerifSerialSink Serial;
#endif
#endif
