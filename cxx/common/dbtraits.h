// Uniform access to the two shipped databases / processor kinds.
#ifndef VERIF_DBTRAITS_H
#define VERIF_DBTRAITS_H
#include "acetime_all.h"
struct ExtDb {
  typedef ace_time::extended::ZoneInfo Info;
  typedef ace_time::ExtendedZoneProcessor Processor;
  static const char* tag() { return "extended"; }
  static uint16_t size() { return ace_time::zonedbx::kZoneRegistrySize; }
  static const Info* info(uint16_t i) { return ace_time::zonedbx::kZoneRegistry[i]; }
  static const char* name(const Info* z) { return (const char*)ace_time::ExtendedZone(z).name(); }
  static uint32_t id(const Info* z) { return ace_time::ExtendedZone(z).zoneId(); }
};
struct BasicDb {
  typedef ace_time::basic::ZoneInfo Info;
  typedef ace_time::BasicZoneProcessor Processor;
  static const char* tag() { return "basic"; }
  static uint16_t size() { return ace_time::zonedb::kZoneRegistrySize; }
  static const Info* info(uint16_t i) { return ace_time::zonedb::kZoneRegistry[i]; }
  static const char* name(const Info* z) { return (const char*)ace_time::BasicZone(z).name(); }
  static uint32_t id(const Info* z) { return ace_time::BasicZone(z).zoneId(); }
};
inline uint32_t verif_dropped(const ace_time::BasicZoneProcessor& p) {
#if SEANDST_ACETIME_VERIF
  return p.verifDroppedTransitions();
#else
  return 0;
#endif
}
inline uint32_t verif_dropped(const ace_time::ExtendedZoneProcessor&) { return 0; }
#ifdef VERIF_GEN_NS
// A freshly generated database compiled under its own namespace (C03/C20).
#include "zone_policies.h"
#include "zone_infos.h"
#include "zone_registry.h"
struct GenDb {
#if VERIF_GEN_EXT
  typedef ace_time::extended::ZoneInfo Info;
  typedef ace_time::ExtendedZoneProcessor Processor;
  static const char* tag() { return "extended(generated)"; }
  static const char* name(const Info* z) { return (const char*)ace_time::ExtendedZone(z).name(); }
  static uint32_t id(const Info* z) { return ace_time::ExtendedZone(z).zoneId(); }
#else
  typedef ace_time::basic::ZoneInfo Info;
  typedef ace_time::BasicZoneProcessor Processor;
  static const char* tag() { return "basic(generated)"; }
  static const char* name(const Info* z) { return (const char*)ace_time::BasicZone(z).name(); }
  static uint32_t id(const Info* z) { return ace_time::BasicZone(z).zoneId(); }
#endif
  static uint16_t size() { return ace_time::VERIF_GEN_NS::kZoneRegistrySize; }
  static const Info* info(uint16_t i) { return ace_time::VERIF_GEN_NS::kZoneRegistry[i]; }
  static int startYear() { return ace_time::VERIF_GEN_NS::kZoneContext.startYear; }
  static int untilYear() { return ace_time::VERIF_GEN_NS::kZoneContext.untilYear; }
};
#endif
template <class Db> const typename Db::Info* find_zone(const char* nm) {
  for (uint16_t i = 0; i < Db::size(); i++) if (strcmp(Db::name(Db::info(i)), nm) == 0) return Db::info(i);
  return nullptr;
}
#endif
