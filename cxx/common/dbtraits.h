// Uniform access to the two shipped databases / processor kinds.
#ifndef VERIF_DBTRAITS_H
#define VERIF_DBTRAITS_H
#include "acetime_all.h"
#include "friends.h"
struct ExtDb {
  typedef ace_time::extended::ZoneInfo Info;
  typedef ace_time::ExtendedZoneProcessor Processor;
  static const char* tag() { return "extended"; }
  static uint16_t size() { return ace_time::zonedbx::kZoneRegistrySize; }
  static const Info* info(uint16_t i) { return ace_time::zonedbx::kZoneRegistry[i]; }
  static const char* name(const Info* z) { return (const char*)ace_time::ExtendedZone(z).name(); }
  static uint32_t id(const Info* z) { return ace_time::ExtendedZone(z).zoneId(); }
};
struct BasicDb {
  typedef ace_time::basic::ZoneInfo Info;
  typedef ace_time::BasicZoneProcessor Processor;
  static const char* tag() { return "basic"; }
  static uint16_t size() { return ace_time::zonedb::kZoneRegistrySize; }
  static const Info* info(uint16_t i) { return ace_time::zonedb::kZoneRegistry[i]; }
  static const char* name(const Info* z) { return (const char*)ace_time::BasicZone(z).name(); }
  static uint32_t id(const Info* z) { return ace_time::BasicZone(z).zoneId(); }
};
inline uint32_t verif_dropped(const ace_time::BasicZoneProcessor& p) {
#if SEANDST_ACETIME_VERIF
  return p.verifDroppedTransitions();
#else
  return 0;
#endif
}
inline uint32_t verif_dropped(const ace_time::ExtendedZoneProcessor&) { return 0; }
#ifdef VERIF_GEN_NS
// A freshly generated database compiled under its own namespace (C03/C20).
#include "zone_policies.h"
#include "zone_infos.h"
#include "zone_registry.h"
struct GenDb {
#if VERIF_GEN_EXT
  typedef ace_time::extended::ZoneInfo Info;
  typedef ace_time::ExtendedZoneProcessor Processor;
  static const char* tag() { return "extended(generated)"; }
  static const char* name(const Info* z) { return (const char*)ace_time::ExtendedZone(z).name(); }
  static uint32_t id(const Info* z) { return ace_time::ExtendedZone(z).zoneId(); }
#else
  typedef ace_time::basic::ZoneInfo Info;
  typedef ace_time::BasicZoneProcessor Processor;
  static const char* tag() { return "basic(generated)"; }
  static const char* name(const Info* z) { return (const char*)ace_time::BasicZone(z).name(); }
  static uint32_t id(const Info* z) { return ace_time::BasicZone(z).zoneId(); }
#endif
  static uint16_t size() { return ace_time::VERIF_GEN_NS::kZoneRegistrySize; }
  static const Info* info(uint16_t i) { return ace_time::VERIF_GEN_NS::kZoneRegistry[i]; }
  static int startYear() { return ace_time::VERIF_GEN_NS::kZoneContext.startYear; }
  static int untilYear() { return ace_time::VERIF_GEN_NS::kZoneContext.untilYear; }
};
#endif
// Does the zone need more than the processor holds (extended: transition pool high-water reaches kMaxTransitions; basic: a
// transition was dropped from the 5-slot cache)? Such zones are D21 material (the compiler has no capacity filter): they are
// judged in C03/S7 and skipped, with a count, by the checks that compare behaviours on generated tables.
inline bool verif_over_capacity(ace_time::ExtendedZoneProcessor& p, const ace_time::TimeZone& tz) {
  p.resetTransitionHighWater();
  for (int y = 2000; y < 2050; y++) { (void)tz.getUtcOffset((ace_time::acetime_t)((int64_t)(y - 2000) * 31557600LL + 15000000LL)); }
  return p.getTransitionHighWater() >= TransitionStorageTest_findTransitionForDateTime::capacity();
}
inline bool verif_over_capacity(ace_time::BasicZoneProcessor& p, const ace_time::TimeZone& tz) {
  uint32_t before = verif_dropped(p);
  for (int y = 2000; y < 2050; y++) { (void)tz.getUtcOffset((ace_time::acetime_t)((int64_t)(y - 2000) * 31557600LL + 15000000LL)); }
  return verif_dropped(p) != before;
}
template <class Db> const typename Db::Info* find_zone(const char* nm) {
  for (uint16_t i = 0; i < Db::size(); i++) if (strcmp(Db::name(Db::info(i)), nm) == 0) return Db::info(i);
  return nullptr;
}
#endif
