// Oracle tables produced by lib/oracle/zicrun.py (piecewise-constant per zone).
#ifndef VERIF_ORACLE_TABLE_H
#define VERIF_ORACLE_TABLE_H
#include <stdio.h>
#include <stdint.h>
#include <string.h>
#include <string>
#include <vector>
#include <map>
struct OEnt { int64_t start; int32_t utoff; int isdst; char ab[16]; };
struct OZone { std::string name; std::vector<OEnt> e;
  // index of the entry in force at t
  size_t at(int64_t t) const { size_t lo = 0, hi = e.size(); while (hi - lo > 1) { size_t m = (lo + hi) / 2; if (e[m].start <= t) lo = m; else hi = m; } return lo; }
};
inline std::map<std::string, OZone> load_oracle(const std::string& path) {
  std::map<std::string, OZone> m; FILE* f = fopen(path.c_str(), "r");
  if (!f) { perror(path.c_str()); exit(3); }
  char line[512], name[256], ab[64]; OZone* cur = nullptr; int n;
  while (fgets(line, sizeof line, f)) {
    if (line[0] == 'Z') { sscanf(line, "Z %255s %d", name, &n); cur = &m[name]; cur->name = name; }
    else if (line[0] == 'T' && cur) { OEnt e; long long s; int u, d; ab[0] = 0; sscanf(line, "T %lld %d %d %63s", &s, &u, &d, ab); e.start = s; e.utoff = u; e.isdst = d; strncpy(e.ab, ab, 15); e.ab[15] = 0; cur->e.push_back(e); }
  }
  fclose(f); return m;
}
#endif
