// Run a batch of cases in a forked child with a per-case watchdog; when the
// child dies (crash, sanitizer abort, hang) the parent learns which case was
// running, reports it, and restarts after it. No bug => one fork per batch.
#ifndef VERIF_ISOLATE_H
#define VERIF_ISOLATE_H
#include <sys/mman.h>
#include <sys/wait.h>
#include <unistd.h>
#include <signal.h>
#include <functional>
#include <string>
#include <string.h>
namespace verif {
struct IsoShared { volatile long cur; volatile long done; char note[1024]; };
static IsoShared* g_iso = nullptr;
inline void iso_note(const std::string& s) { if (g_iso) { strncpy(g_iso->note, s.c_str(), 1023); g_iso->note[1023] = 0; } }
inline std::string iso_last_note() { return g_iso ? std::string(g_iso->note) : std::string(); }
// fn(i) runs case i in the child (may print JSON lines to stdout).
// on_death(i, status) is called in the parent for the case that killed the child.
inline void run_isolated(long ncases, unsigned watchdog_s, const std::function<void(long)>& fn,
                         const std::function<void(long, int)>& on_death, int max_deaths = 1 << 30) {
  IsoShared* sh = (IsoShared*)mmap(nullptr, sizeof(IsoShared), PROT_READ | PROT_WRITE, MAP_SHARED | MAP_ANONYMOUS, -1, 0);
  long start = 0; g_iso = sh; sh->note[0] = 0;
  while (start < ncases) {
    sh->cur = start; sh->done = 0;
    fflush(stdout);
    pid_t p = fork();
    if (p == 0) {
      signal(SIGALRM, SIG_DFL); signal(SIGABRT, SIG_DFL); signal(SIGSEGV, SIG_DFL);
      for (long i = start; i < ncases; i++) { sh->cur = i; alarm(watchdog_s); fn(i); }
      alarm(0); sh->done = 1; fflush(stdout); _exit(0);
    }
    int st = 0; waitpid(p, &st, 0);
    if (sh->done) break;
    on_death(sh->cur, st);
    if (--max_deaths <= 0) break;   // stop restarting: enough failing cases reported for this batch
    start = sh->cur + 1;
  }
  g_iso = nullptr; munmap(sh, sizeof(IsoShared));
}
}
#endif
