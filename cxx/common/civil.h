// Independent proleptic-Gregorian arithmetic (H. Hinnant's public-domain
// algorithms, 64-bit) used as oracle; shares no code with AceTime.
#ifndef VERIF_CIVIL_H
#define VERIF_CIVIL_H
#include <stdint.h>
namespace civil {
inline int64_t days_from_civil(int64_t y, unsigned m, unsigned d) {  // days since 1970-01-01
  y -= m <= 2;
  const int64_t era = (y >= 0 ? y : y - 399) / 400;
  const unsigned yoe = (unsigned)(y - era * 400);
  const unsigned doy = (153 * (m > 2 ? m - 3 : m + 9) + 2) / 5 + d - 1;
  const unsigned doe = yoe * 365 + yoe / 4 - yoe / 100 + doy;
  return era * 146097 + (int64_t)doe - 719468;
}
inline void civil_from_days(int64_t z, int64_t& y, unsigned& m, unsigned& d) {
  z += 719468;
  const int64_t era = (z >= 0 ? z : z - 146096) / 146097;
  const unsigned doe = (unsigned)(z - era * 146097);
  const unsigned yoe = (doe - doe / 1460 + doe / 36524 - doe / 146096) / 365;
  y = (int64_t)yoe + era * 400;
  const unsigned doy = doe - (365 * yoe + yoe / 4 - yoe / 100);
  const unsigned mp = (5 * doy + 2) / 153;
  d = doy - (153 * mp + 2) / 5 + 1;
  m = mp < 10 ? mp + 3 : mp - 9;
  y += (m <= 2);
}
inline bool is_leap(int64_t y) { return (y % 4 == 0 && y % 100 != 0) || y % 400 == 0; }
inline unsigned dim(int64_t y, unsigned m) {
  static const unsigned t[12] = {31, 28, 31, 30, 31, 30, 31, 31, 30, 31, 30, 31};
  return (m == 2 && is_leap(y)) ? 29 : t[m - 1];
}
inline unsigned iso_weekday(int64_t days1970) {  // 1=Mon..7=Sun
  int64_t w = (days1970 + 3) % 7; if (w < 0) w += 7; return (unsigned)w + 1;
}
static const int64_t kEpoch2000Days = 10957;  // 2000-01-01 - 1970-01-01
struct Fields { int64_t y; unsigned mo, d, h, mi, s; };
inline Fields fields_from_epoch2000(int64_t t) {
  int64_t days = t >= 0 ? t / 86400 : -((-t + 86399) / 86400);
  int64_t sod = t - days * 86400;
  Fields f; civil_from_days(days + kEpoch2000Days, f.y, f.mo, f.d);
  f.h = sod / 3600; f.mi = sod % 3600 / 60; f.s = sod % 60; return f;
}
inline int64_t epoch2000_from_fields(int64_t y, unsigned mo, unsigned d, unsigned h, unsigned mi, unsigned s) {
  return (days_from_civil(y, mo, d) - kEpoch2000Days) * 86400 + h * 3600 + mi * 60 + s;
}
}
#endif
