// Explicit-state explorer over operation histories of real library objects.
// World requirements:
//   World(const Cfg&)                      fresh real objects
//   std::string apply(const Op&)           execute one operation, return canonical observation
//   std::string key() const                canonical state (complete w.r.t. observable futures)
// The oracle for an operation is supplied by the caller (typically: the same
// operation on a freshly constructed, unshared object).
#ifndef VERIF_MC_H
#define VERIF_MC_H
#include <deque>
#include <string>
#include <vector>
#include <unordered_set>
#include <functional>
#include <stdint.h>
namespace verif {
struct McStats { uint64_t states = 0, transitions = 0, executions = 0, max_depth = 0, frontier_left = 0, distinct_obs = 0; bool fixpoint = false; };

template <class World, class Cfg, class Op>
McStats explore(const Cfg& cfg, const std::vector<Op>& alphabet, int max_depth,
                const std::function<std::string(const Op&)>& expected,
                const std::function<void(const std::vector<uint16_t>& hist, uint16_t op, const std::string& got, const std::string& want)>& on_mismatch,
                const std::function<void(const std::vector<uint16_t>& hist, uint16_t op)>& before_step,
                uint64_t max_states = 5000000) {
  McStats st;
  std::unordered_set<std::string> seen, obs;
  std::deque<std::vector<uint16_t>> frontier;
  { World w(cfg); seen.insert(w.key()); }
  frontier.push_back({});
  st.states = 1;
  while (!frontier.empty()) {
    std::vector<uint16_t> h = frontier.front(); frontier.pop_front();
    if (h.size() > st.max_depth) st.max_depth = h.size();
    for (uint16_t a = 0; a < alphabet.size(); a++) {
      World w(cfg);
      for (uint16_t x : h) { before_step(h, a); w.apply(alphabet[x]); st.executions++; }
      before_step(h, a);
      std::string got = w.apply(alphabet[a]); st.executions++;
      st.transitions++;
      std::string want = expected(alphabet[a]);
      if (got != want) on_mismatch(h, a, got, want);
      obs.insert(got);
      std::string k = w.key();
      if (seen.insert(k).second) {
        st.states++;
        if ((int)h.size() + 1 < max_depth && st.states < max_states) { auto h2 = h; h2.push_back(a); frontier.push_back(h2); }
        else st.frontier_left++;
      }
    }
  }
  st.fixpoint = (st.frontier_left == 0);
  st.distinct_obs = obs.size();
  return st;
}

// Stateless companion: every operation sequence of exactly `depth` steps is executed on a fresh world and every step
// is compared with the oracle. No state matching is involved, so behaviour that depends on state the canonical key
// does not know about (e.g. a member added later) is still reached within the depth bound.
template <class World, class Cfg, class Op>
McStats explore_stateless(const Cfg& cfg, const std::vector<Op>& alphabet, int depth,
                          const std::function<std::string(const Op&)>& expected,
                          const std::function<void(const std::vector<uint16_t>& hist, uint16_t op, const std::string& got, const std::string& want)>& on_mismatch,
                          const std::function<void(const std::vector<uint16_t>& hist, uint16_t op)>& before_step) {
  McStats st; const size_t n = alphabet.size();
  std::vector<uint16_t> idx(depth, 0);
  if (n == 0 || depth <= 0) return st;
  while (true) {
    World w(cfg);
    std::vector<uint16_t> h;
    for (int k = 0; k < depth; k++) {
      before_step(h, idx[k]);
      std::string got = w.apply(alphabet[idx[k]]); st.executions++; st.transitions++;
      std::string want = expected(alphabet[idx[k]]);
      if (got != want) { on_mismatch(h, idx[k], got, want); break; }
      h.push_back(idx[k]);
    }
    st.states++;   // one complete history
    int k = depth - 1; while (k >= 0 && ++idx[k] == n) { idx[k] = 0; k--; }
    if (k < 0) break;
  }
  st.max_depth = depth; st.fixpoint = false;
  return st;
}
}
#endif
