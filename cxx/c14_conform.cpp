// C14 companion: replay every edge of the TLC state graph of tla/SyncLoop.tla against the real SystemClockLoop
// (configuration syncPeriod 8 s, initialPeriod 1 s, timeout 1000 ms) and compare the abstract state.
#include "acetime_all.h"
#include "verif.h"
using namespace ace_time;
using namespace ace_time::clock;
using namespace verif;
static unsigned long g_ms = 0;
struct Ref : public Clock { mutable int sends = 0, reads = 0; bool ready = true; acetime_t value = 0;
  acetime_t getNow() const override { return value; } void sendRequest() const override { sends++; } bool isResponseReady() const override { return ready; } acetime_t readResponse() const override { reads++; return value; } };
struct Backup : public Clock { int sets = 0; acetime_t getNow() const override { return 0; } void setNow(acetime_t) override { sets++; } };
class TLoop : public SystemClockLoop { public: TLoop(Clock* r, Clock* b, uint16_t s, uint16_t i, uint16_t t) : SystemClockLoop(r, b, s, i, t) {} unsigned long clockMillis() const override { return g_ms; } };
class SystemClockLoopTest_loop { public:
  static uint8_t status(const SystemClockLoop& c) { return c.mRequestStatus; } static uint16_t period(const SystemClockLoop& c) { return c.mCurrentSyncPeriodSeconds; }
  static unsigned long reqStart(const SystemClockLoop& c) { return c.mRequestStartMillis; } static unsigned long lastSyncMs(const SystemClockLoop& c) { return c.mLastSyncMillis; } };
typedef SystemClockLoopTest_loop LF;
int main(int argc, char** argv) {
  Args a = parse_args(argc, argv); Counters c;
  const int SYNC = a.getl("sync", 8), INIT = a.getl("init", 1), TO = a.getl("timeout", 1000);
  const unsigned long CAP = SYNC * 1000UL + TO + 1;
  FILE* f = fopen(a.get("traces").c_str(), "r"); if (!f) return 3;
  static char line[1 << 16]; long ln = 0;
  static const char* SN[] = {"Ready", "Sent", "Ok", "Wait"};
  while (fgets(line, sizeof line, f)) {
    ln++; if ((ln % a.nshards) != a.shard) continue;
    char* bar = strstr(line, " | "); if (!bar) continue; *bar = 0;
    char wstatus[16]; int wperiod, wreq, wsync, wsent, wapplied, wever;
    sscanf(bar + 3, "%15s %d %d %d %d %d %d", wstatus, &wperiod, &wreq, &wsync, &wsent, &wapplied, &wever);
    Ref ref; Backup bk; g_ms = 0; TLoop clk(&ref, &bk, SYNC, INIT, TO);
    int sends0 = 0, reads0 = 0; bool everApplied = false; std::string hist;
    for (char* tok = strtok(line, " "); tok; tok = strtok(nullptr, " ")) {
      int d; char ans[16]; sscanf(tok, "%d,%15s", &d, ans);
      g_ms += d; ref.ready = strcmp(ans, "notready") != 0;
      ref.value = strcmp(ans, "invalid") == 0 ? Clock::kInvalidSeconds : (acetime_t)(700000000 + g_ms / 1000);
      sends0 = ref.sends; reads0 = ref.reads;
      uint8_t st0 = LF::status(clk);
      clk.loop();
      if (st0 == SystemClockLoop::kStatusSent && LF::status(clk) == SystemClockLoop::kStatusOk) everApplied = true;
      hist += tok; hist += ' ';
      c.add("impl_steps");
    }
    bool sent = ref.sends > sends0, applied = ref.reads > reads0 && LF::status(clk) == SystemClockLoop::kStatusOk && (ref.value != Clock::kInvalidSeconds);
    const char* gs = SN[LF::status(clk)];
    unsigned long greq = wever ? std::min(g_ms - LF::reqStart(clk), CAP) : (unsigned long)wreq;
    unsigned long gsync = everApplied ? std::min(g_ms - LF::lastSyncMs(clk), CAP) : (unsigned long)wsync;
    // the model's reqAge/syncAge before the first send / first sync count from time 0 (uninitialised fields in the implementation): compared only once meaningful
    if (strcmp(gs, wstatus) != 0 || LF::period(clk) != wperiod || (int)sent != wsent || (wapplied != 0) != applied || greq != (unsigned long)wreq || (everApplied && gsync != (unsigned long)wsync))
      violation("c14:model-conformance", fmt("{\"events\":%s,\"model\":{\"status\":\"%s\",\"periodS\":%d,\"reqAge\":%d,\"syncAge\":%d,\"sent\":%d,\"applied\":%d},\"implementation\":{\"status\":\"%s\",\"periodS\":%u,\"reqAge\":%lu,\"syncAge\":%lu,\"sent\":%d,\"applied\":%d}}",
          jstr(hist).c_str(), wstatus, wperiod, wreq, wsync, wsent, wapplied, gs, LF::period(clk), greq, gsync, (int)sent, (int)applied));
    c.add("model_edges_replayed");
  }
  fclose(f); done(c); return 0;
}
