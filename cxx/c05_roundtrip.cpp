// C05: instant <-> zoned date-time round trips; conversions preserve the instant; compareTo orders by instant.
#include "acetime_all.h"
#include "verif.h"
#include "civil.h"
#include "oracle_table.h"
#include "dbtraits.h"
using namespace ace_time;
using namespace verif;
static const int64_t UNIX = 946684800LL;
static const int64_t T_END = 1577923200LL;

struct Targets { std::vector<TimeZone> tz; };
static uint64_t g_n = 0, g_conv = 0, g_cmp = 0, g_skipped = 0, g_back = 0;

static void check_instant(const TimeZone& tz, const char* tzname, int64_t t64, int32_t off_s, const Targets& tg, bool judge_offset, bool heavy = true) {
  acetime_t t = (acetime_t)t64;
  journal("instant", t64, off_s);
  // domain: local time must be representable and a day away from the int32 limits (README); else C09's subject
  int64_t L = t64 + off_s;
  if (L <= (int64_t)INT32_MIN + 86400 || L >= (int64_t)INT32_MAX - 86400 || t64 <= (int64_t)INT32_MIN + 86400 || t64 >= (int64_t)INT32_MAX - 86400) { g_skipped++; return; }
  ZonedDateTime z = ZonedDateTime::forEpochSeconds(t, tz);
  g_n++;
  auto bad = [&](const char* w, int64_t got) { violation(std::string("c05:") + w, fmt("{\"zone\":\"%s\",\"epochSeconds\":%lld,\"got\":%lld}", tzname, (long long)t64, (long long)got)); };
  if (z.isError()) { bad("error-for-valid-instant", 0); return; }
  if (z.toEpochSeconds() != t) bad("toEpochSeconds-roundtrip", z.toEpochSeconds());
  if (judge_offset && (int32_t)z.timeOffset().toMinutes() * 60 != off_s) bad("offset-unexpected", z.timeOffset().toMinutes());
  if (t64 + UNIX <= INT32_MAX) {
    if (z.toUnixSeconds() != t64 + UNIX) bad("toUnixSeconds", z.toUnixSeconds());
    ZonedDateTime zu = ZonedDateTime::forUnixSeconds((acetime_t)(t64 + UNIX), tz);
    if (zu.toEpochSeconds() != t || !(zu.localDateTime() == z.localDateTime())) bad("forUnixSeconds", zu.toEpochSeconds());
    OffsetDateTime ou = OffsetDateTime::forUnixSeconds((acetime_t)(t64 + UNIX), z.timeOffset());
    if (ou.toEpochSeconds() != t || ou.toUnixSeconds() != t64 + UNIX) bad("OffsetDateTime-unix", ou.toEpochSeconds());
  }
  OffsetDateTime o = OffsetDateTime::forEpochSeconds(t, z.timeOffset());
  if (o.toEpochSeconds() != t || !(o.localDateTime() == z.localDateTime())) bad("OffsetDateTime-roundtrip", o.toEpochSeconds());
  int64_t days = t64 >= 0 ? t64 / 86400 : -((-t64 + 86399) / 86400);
  if (z.toEpochDays() != days || o.toEpochDays() != days) bad("toEpochDays", z.toEpochDays());
  if (z.toUnixDays() != days + 10957) bad("toUnixDays", z.toUnixDays());
  if (!heavy) return;   // the exhaustive per-second sweep runs the conversion/comparison block on every 61st instant
  // conversions never change the instant
  for (size_t i = 0; i < tg.tz.size(); i++) {
    ZonedDateTime c = z.convertToTimeZone(tg.tz[i]);
    g_conv++;
    if (c.isError()) { if (t64 >= 0 && t64 < T_END) bad("convertToTimeZone-error", i); continue; }
    if (c.toEpochSeconds() != t) bad("convertToTimeZone-changes-instant", c.toEpochSeconds());
    if (c.compareTo(z) != 0 || z.compareTo(c) != 0) bad("compareTo-same-instant-across-zones", c.compareTo(z));
    ZonedDateTime c1 = ZonedDateTime::forEpochSeconds(t + 1, tg.tz[i]);
    if (!c1.isError()) { g_cmp++; if (z.compareTo(c1) != -1 || c1.compareTo(z) != 1) bad("compareTo-order-across-zones", z.compareTo(c1)); }
  }
  for (int16_t m : {0, -480, 345, 840, -720}) {
    OffsetDateTime c = o.convertToTimeOffset(TimeOffset::forMinutes(m)); g_conv++;
    if (c.toEpochSeconds() != t) bad("convertToTimeOffset-changes-instant", c.toEpochSeconds());
    if (c.compareTo(o) != 0) bad("OffsetDateTime-compareTo", c.compareTo(o));
  }
  ZonedDateTime z1 = ZonedDateTime::forEpochSeconds(t + 1, tz);
  if (!z1.isError()) { g_cmp++; if (z.compareTo(z1) != -1 || z1.compareTo(z) != 1 || z.compareTo(z) != 0) bad("compareTo-order", z.compareTo(z1)); }
}

int main(int argc, char** argv) {
  Args a = parse_args(argc, argv);
  Counters c;
  BasicZoneManager<2> bm(zonedb::kZoneRegistrySize, zonedb::kZoneRegistry);
  ExtendedZoneManager<2> xm(zonedbx::kZoneRegistrySize, zonedbx::kZoneRegistry);
  BasicZoneProcessor bp1; ExtendedZoneProcessor xp1;
  Targets tg;
  tg.tz.push_back(TimeZone::forUtc());
  tg.tz.push_back(TimeZone::forTimeOffset(TimeOffset::forMinutes(-480), TimeOffset::forMinutes(60)));
  tg.tz.push_back(TimeZone::forZoneInfo(&zonedb::kZoneAmerica_Los_Angeles, &bp1));
  tg.tz.push_back(TimeZone::forZoneInfo(&zonedbx::kZoneEurope_London, &xp1));
  tg.tz.push_back(bm.createForZoneName("Australia/Sydney"));
  tg.tz.push_back(xm.createForZoneName("Asia/Kolkata"));
  Targets manual_only; manual_only.tz.push_back(tg.tz[0]); manual_only.tz.push_back(tg.tz[1]); manual_only.tz.push_back(TimeZone::forTimeOffset(TimeOffset::forMinutes(765)));
  // ---- part 1: fixed offsets over the whole int32 line
  std::vector<int> offs;
  if (a.thorough) offs = {0, -480, 330, 765, -720, 840, 960, -960, 1, -1, 59, -61};
  else { for (int m = -960; m <= 960; m += 15) offs.push_back(m); for (int m : {1, -1, 59, -59, 61, -61, 721, -721}) offs.push_back(m); }
  int64_t lo = (int64_t)INT32_MIN + 1, hi = INT32_MAX;
  int64_t span = (hi - lo + a.nshards) / a.nshards, s0 = lo + span * a.shard, s1 = std::min(hi, s0 + span - 1);
  int64_t stride = a.thorough ? 1 : 997 * (int64_t)offs.size() / 4;
  uint64_t oi = 0;
  for (int m : offs) {
    TimeZone tz = (m % 60 == 0 && m > 0) ? TimeZone::forTimeOffset(TimeOffset::forMinutes(m - 60), TimeOffset::forMinutes(60)) : TimeZone::forTimeOffset(TimeOffset::forMinutes(m));
    std::string nm = fmt("manual(%+d min)", m);
    for (int64_t t = s0 + (int64_t)((a.seed * 131 + oi * 17) % stride); t <= s1; t += stride) check_instant(tz, nm.c_str(), t, m * 60, a.thorough ? manual_only : tg, true, !a.thorough || (t % 61 == 0));
    oi++;
    // every UTC midnight and every local midnight of this shard's span, +-1 s (where floor/ceil slips of the day split live)
    if (!a.thorough) {
      for (int64_t d = s0 / 86400 - 1; d <= s1 / 86400 + 1; d++) for (int64_t base : {d * 86400, d * 86400 - (int64_t)m * 60}) for (int64_t t = base - 1; t <= base + 1; t++)
        if (t >= s0 && t <= s1) check_instant(tz, nm.c_str(), t, m * 60, manual_only, true, false);
    }
    // boundaries
    std::vector<int64_t> cs = {0, lo + 86400, hi - 86400, -UNIX, (int64_t)INT32_MAX - UNIX};
    for (size_t i = 0; i < cs.size(); i++) if ((int)((i + oi) % a.nshards) == a.shard)
      for (int64_t t = cs[i] - 2000; t <= cs[i] + 2000; t++) if (t >= lo && t <= hi) check_instant(tz, nm.c_str(), t, m * 60, tg, true);
  }
  c.add("fixed_offsets", a.shard == 0 ? offs.size() : 0);
  // ---- part 2: database zones through all four zone-backed kinds
  std::string opath = a.get("oraclex");
  if (!opath.empty()) {
    std::map<std::string, OZone> ox = load_oracle(opath), ob = load_oracle(a.get("oracleb"));
    int64_t grid = a.thorough ? 3600 : 6 * 3600;
    int item = 0;
    for (int kind = 0; kind < 4; kind++) {
      bool ext = (kind == 0 || kind == 2);
      int nz = ext ? ExtDb::size() : BasicDb::size();
      for (int zi = 0; zi < nz; zi++) {
        if ((item++ % a.nshards) != a.shard) continue;
        BasicZoneProcessor bp; ExtendedZoneProcessor xp; TimeZone tz; std::string nm;
        if (kind == 0) { tz = TimeZone::forZoneInfo(ExtDb::info(zi), &xp); nm = ExtDb::name(ExtDb::info(zi)); }
        if (kind == 1) { tz = TimeZone::forZoneInfo(BasicDb::info(zi), &bp); nm = BasicDb::name(BasicDb::info(zi)); }
        if (kind == 2) { tz = xm.createForZoneIndex(zi); nm = ExtDb::name(ExtDb::info(zi)); }
        if (kind == 3) { tz = bm.createForZoneIndex(zi); nm = BasicDb::name(BasicDb::info(zi)); }
        auto& om = ext ? ox : ob;
        auto it = om.find(nm); if (it == om.end()) { violation("c05:no-oracle:" + nm, "{}"); continue; }
        const OZone& oz = it->second;
        std::string label = nm + (kind >= 2 ? " (managed)" : "");
        for (int64_t t = (int64_t)((a.seed * 7919 + zi * 60) % grid); t < T_END - 2; t += grid) check_instant(tz, label.c_str(), t, oz.e[oz.at(t)].utoff, tg, true);
        for (size_t k = 1; k < oz.e.size(); k++) { int64_t b = oz.e[k].start; if (b < 10 || b >= T_END - 10) continue; for (int d = -2; d <= 2; d++) check_instant(tz, label.c_str(), b + d, oz.e[oz.at(b + d)].utoff, tg, true); }
        // adversarial order: time going backwards over the edges of the processor's 14-month window. For every year Y (descending) the
        // processor is primed with mid-year Y and then asked for each hour within 15 h of Dec 1 Y-1, Jan 1 Y, Jan 1 Y+1, Jan 31 Y+1 and
        // Feb 1 Y+1 (UTC) - instants a cache keyed on UTC dates or on month indexes may wrongly serve from year Y's window.
        for (int Y = 2048; Y >= 2001; Y--) {
          int64_t prime = civil::epoch2000_from_fields(Y, 7, 1, 12, 0, 0);
          const int64_t edges[] = {civil::epoch2000_from_fields(Y - 1, 12, 1, 0, 0, 0), civil::epoch2000_from_fields(Y, 1, 1, 0, 0, 0), civil::epoch2000_from_fields(Y + 1, 1, 1, 0, 0, 0),
                                   civil::epoch2000_from_fields(Y + 1, 1, 31, 0, 0, 0), civil::epoch2000_from_fields(Y + 1, 2, 1, 0, 0, 0)};
          for (int64_t e : edges) for (int h = -15; h <= 15; h++) {
            int64_t t = e + h * 3600 + (int64_t)(a.seed % 3600);
            if (t < 10 || t >= T_END - 10) continue;
            check_instant(tz, label.c_str(), prime, oz.e[oz.at(prime)].utoff, tg, true, false);
            check_instant(tz, label.c_str(), t, oz.e[oz.at(t)].utoff, tg, true, false);
            g_back++;
          }
        }
        // same zone, two instants exactly one offset drop apart across a fall-back: identical local fields, different instants.
        // compareTo must order them by instant and == must tell them apart.
        for (size_t k = 1; k < oz.e.size(); k++) {
          int64_t b = oz.e[k].start; int32_t drop = oz.e[k - 1].utoff - oz.e[k].utoff;
          if (drop <= 0 || b - drop < 10 || b + drop >= T_END - 10) continue;
          if (k + 1 < oz.e.size() && oz.e[k + 1].start < b + drop) continue;   // another change inside the overlap
          if (oz.e[k - 1].start > b - drop) continue;
          for (int64_t t1 : {b - 1, b - drop, b - drop / 2, b - drop + 1}) {
            ZonedDateTime z1 = ZonedDateTime::forEpochSeconds((acetime_t)t1, tz), z2 = ZonedDateTime::forEpochSeconds((acetime_t)(t1 + drop), tz);
            g_cmp++;
            if (z1.compareTo(z2) != -1 || z2.compareTo(z1) != 1 || z1 == z2)
              violation("c05:compareTo-order", fmt("{\"zone\":\"%s\",\"epochSeconds\":[%lld,%lld],\"note\":\"same local fields on both sides of a fall-back\",\"compareTo\":%d,\"equal\":%d}", label.c_str(), (long long)t1, (long long)(t1 + drop), z1.compareTo(z2), (int)(z1 == z2)));
          }
        }
        c.add("zone_kind_pairs");
      }
    }
  }
  c.add("instants", g_n); c.add("primed_window_edge_instants", g_back); c.add("conversions", g_conv); c.add("comparisons", g_cmp); c.add("outside_documented_domain_not_judged", g_skipped);
  if (a.shard == 0) sample(fmt("{\"zone\":\"manual(-480 min)\",\"epochSeconds\":%lld,\"checks\":\"toEpochSeconds/toUnixSeconds/forUnixSeconds/convertToTimeZone x6/compareTo\"}", (long long)s0));
  done(c);
  return 0;
}
