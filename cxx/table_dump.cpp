// Decode a compiled zone database (shipped or freshly generated) through the library's
// brokers and dump every field as JSON lines. Build with -DVDB_NS=<namespace> -DVDB_EXT=0|1
// and -I <dir containing zone_infos.h / zone_policies.h / zone_registry.h>.
#include <Arduino.h>
#include "ace_time/common/compat.h"
#include "ace_time/internal/ZoneContext.h"
#include "ace_time/internal/ZoneInfo.h"
#include "ace_time/internal/ZonePolicy.h"
#include "ace_time/internal/Brokers.h"
#include "zone_policies.h"
#include "zone_infos.h"
#include "zone_registry.h"
#define VERIF_NO_MILLIS 1
#include "verif.h"
using namespace ace_time;
using namespace verif;
#if VDB_EXT
namespace K = ace_time::extended;
#else
namespace K = ace_time::basic;
#endif
static const char* suffix(uint8_t s) { return s == K::ZoneContext::kSuffixW ? "w" : s == K::ZoneContext::kSuffixS ? "s" : s == K::ZoneContext::kSuffixU ? "u" : "?"; }
int main(int argc, char** argv) {
  Args a = parse_args(argc, argv);
  std::set<const void*> policies;
  uint16_t n = VDB_NS::kZoneRegistrySize;
  printf("{\"type\":\"db\",\"registrySize\":%u,\"startYear\":%d,\"untilYear\":%d,\"tzVersion\":%s}\n", n, VDB_NS::kZoneContext.startYear, VDB_NS::kZoneContext.untilYear, jstr(VDB_NS::kZoneContext.tzVersion).c_str());
  for (uint16_t i = 0; i < n; i++) {
    K::ZoneInfoBroker z(K::ZoneRegistryBroker(VDB_NS::kZoneRegistry).zoneInfo(i));
    std::string s = fmt("{\"type\":\"zone\",\"index\":%u,\"name\":%s,\"zoneId\":%u,\"transitionBufSize\":%u,\"startYear\":%d,\"untilYear\":%d,\"eras\":[", i, jstr(z.name()).c_str(), z.zoneId(), z.zoneInfo()->transitionBufSize, z.startYear(), z.untilYear());
    for (uint8_t e = 0; e < z.numEras(); e++) {
      K::ZoneEraBroker era = z.era(e);
      K::ZonePolicyBroker pol = era.zonePolicy();
      const void* paddr = pol.isNull() ? nullptr : (const void*)era.zoneEra()->zonePolicy;
      if (paddr) policies.insert(paddr);
      s += fmt("%s{\"offsetMinutes\":%d,\"deltaMinutes\":%d,\"format\":%s,\"untilYearTiny\":%d,\"untilMonth\":%u,\"untilDay\":%u,\"untilTimeMinutes\":%u,\"untilTimeSuffix\":\"%s\",\"policy\":%llu}",
               e ? "," : "", era.offsetMinutes(), era.deltaMinutes(), jstr(era.format()).c_str(), era.untilYearTiny(), era.untilMonth(), era.untilDay(), era.untilTimeMinutes(), suffix(era.untilTimeSuffix()), (unsigned long long)(uintptr_t)paddr);
    }
    printf("%s]}\n", s.c_str());
  }
  for (const void* p : policies) {
    K::ZonePolicyBroker pol((const K::ZonePolicy*)p);
    std::string s = fmt("{\"type\":\"policy\",\"addr\":%llu,\"numLetters\":%u,\"letters\":[", (unsigned long long)(uintptr_t)p, pol.numLetters());
    for (uint8_t i = 0; i < pol.numLetters(); i++) s += std::string(i ? "," : "") + jstr(pol.letter(i));
    s += "],\"rules\":[";
    for (uint8_t r = 0; r < pol.numRules(); r++) {
      K::ZoneRuleBroker rule = pol.rule(r);
      uint8_t lc = rule.letter();
      std::string ls = lc >= 32 ? std::string(1, (char)lc) : (lc < pol.numLetters() ? std::string(pol.letter(lc)) : std::string("<bad letter index>"));
      s += fmt("%s{\"fromYearTiny\":%d,\"toYearTiny\":%d,\"inMonth\":%u,\"onDayOfWeek\":%d,\"onDayOfMonth\":%d,\"atTimeMinutes\":%u,\"atTimeSuffix\":\"%s\",\"deltaMinutes\":%d,\"letterCode\":%u,\"letter\":%s}",
               r ? "," : "", rule.fromYearTiny(), rule.toYearTiny(), rule.inMonth(), (int)rule.onDayOfWeek(), rule.onDayOfMonth(), rule.atTimeMinutes(), suffix(rule.atTimeSuffix()), rule.deltaMinutes(), lc, jstr(ls).c_str());
    }
    printf("%s]}\n", s.c_str());
  }
  printf("{\"type\":\"done\"}\n");
  return 0;
}
