// C10: zone lookup by name / id / index. Small-scope exhaustive: all registries
// of size 0..40 (three sorted bases x sorted/unsorted variants) x all present
// and absent queries, on the real ZoneRegistrar/ZoneManagerImpl templates.
// Part A instantiates the real templates with a bounds-checking registry broker
// and a step-counting comparator (so out-of-range slot reads and non-termination
// are observed exactly, in-process). Part B drives the stock BasicZoneManager /
// ExtendedZoneManager typedefs in forked children under ASan + watchdog.
#include "acetime_all.h"
#include "verif.h"
#include "dbtraits.h"
#include "isolate.h"
#include <setjmp.h>
#include <algorithm>
using namespace ace_time;
using namespace verif;

static jmp_buf g_jb; static volatile int g_fault; static volatile long g_bad_index; static long g_steps, g_limit; static uint16_t g_n;
static int counting_strcmp(const char* a, const char* b) {
  if (++g_steps > g_limit) { g_fault = 2; longjmp(g_jb, 1); }
  return strcmp(a, b);
}
template <class ZI> struct CheckedBroker {
  CheckedBroker(const ZI* const* r) : r_(r) {}
  const ZI* zoneInfo(uint16_t i) const { if (i >= g_n) { g_fault = 1; g_bad_index = i; longjmp(g_jb, 1); } return r_[i]; }
  const ZI* const* r_;
};

// friend-named accessor (declared as friend by ZoneRegistrar.h): reaches the protected static searches
class BasicZoneRegistrarTest_Sorted_binarySearchByName {
 public:
  template <class R, class ZI> static uint16_t bin(const ZI* const* reg, uint16_t n, const char* q) { return R::binarySearchByName(reg, n, q); }
  template <class R, class ZI> static uint16_t lin(const ZI* const* reg, uint16_t n, const char* q) { return R::linearSearchByName(reg, n, q); }
  template <class R, class ZI> static uint16_t linId(const ZI* const* reg, uint16_t n, uint32_t id) { return R::linearSearchById(reg, n, id); }
  template <class R, class ZI> static bool sorted(const ZI* const* reg, uint16_t n) { return R::isSorted(reg, n); }
  template <class R> static uint8_t threshold() { return R::kBinarySearchThreshold; }
};
typedef BasicZoneRegistrarTest_Sorted_binarySearchByName Fr;

template <class Db> struct Kit;
template <> struct Kit<ExtDb> {
  typedef extended::ZoneInfo ZI; typedef extended::ZoneInfoBroker ZIB; typedef ExtendedZoneProcessorCache<1> ZSC;
  typedef ZoneRegistrar<ZI, CheckedBroker<ZI>, ZIB, counting_strcmp, counting_strcmp> Reg;
  struct Mgr : public ZoneManagerImpl<ZI, Reg, ZSC> { Mgr(uint16_t n, const ZI* const* r) : ZoneManagerImpl<ZI, Reg, ZSC>(n, r) {} };
  typedef ExtendedZoneManager<1> Stock;
};
template <> struct Kit<BasicDb> {
  typedef basic::ZoneInfo ZI; typedef basic::ZoneInfoBroker ZIB; typedef BasicZoneProcessorCache<1> ZSC;
  typedef ZoneRegistrar<ZI, CheckedBroker<ZI>, ZIB, counting_strcmp, counting_strcmp> Reg;
  struct Mgr : public ZoneManagerImpl<ZI, Reg, ZSC> { Mgr(uint16_t n, const ZI* const* r) : ZoneManagerImpl<ZI, Reg, ZSC>(n, r) {} };
  typedef BasicZoneManager<1> Stock;
};

struct Stats { uint64_t registries = 0, queries = 0, present = 0, absent = 0, idq = 0, idxq = 0, direct = 0, sorted_regs = 0, unsorted_regs = 0; };

template <class Db> std::vector<std::string> absent_queries(const std::vector<const typename Db::Info*>& reg, bool sorted) {
  std::vector<std::string> q; std::set<std::string> names;
  for (auto z : reg) names.insert(Db::name(z));
  auto add = [&](const std::string& s) { if (!names.count(s)) q.push_back(s); };
  add(""); add("!"); add("~~~~"); add("A"); add("Z"); add("a");
  for (size_t i = 0; i < reg.size(); i++) {
    std::string n = Db::name(reg[i]);
    add(n + "\x01");                       // falls between n and its successor
    // absent names with the SAME djb2 value as n (h = 33 h + c: one character +1, the next -33): a lookup that goes through
    // the id must not mistake them for n
    for (size_t k : {(size_t)0, n.size() / 2, n.size() - 2}) {
      if (k + 1 >= n.size()) continue;
      std::string hcol = n;
      if ((unsigned char)hcol[k] < 0x7e && (unsigned char)hcol[k + 1] >= 0x21 + 33) { hcol[k]++; hcol[k + 1] -= 33; add(hcol); }
      std::string hcol2 = n;
      if ((unsigned char)hcol2[k] > 0x21 && (unsigned char)hcol2[k + 1] + 33 < 0x7f) { hcol2[k]--; hcol2[k + 1] += 33; add(hcol2); }
    }
    std::string p = n; p[p.size() - 1]--; add(p + "\x7e");   // just below n
    if (i < 3 || i + 3 >= reg.size() || i == reg.size() / 2) {
      add(n.substr(0, n.size() - 1)); add(n + "x"); add(n.substr(0, n.size() / 2));
      std::string u = n; for (auto& ch : u) ch = toupper(ch); add(u);
      std::string l = n; for (auto& ch : l) ch = tolower(ch); add(l);
    }
  }
  return q;
}

template <class Db, class M>
void query_all(M& mgr, const std::vector<const typename Db::Info*>& reg, const char* variant, const char* flavour, Stats& st, bool guarded) {
  typedef typename Db::Info ZI;
  const uint16_t n = reg.size();
  auto desc = [&](const std::string& q) {
    std::string names = "[";
    for (uint16_t i = 0; i < n && i < 41; i++) { names += jstr(Db::name(reg[i])); if (i + 1 < n) names += ","; }
    names += "]";
    return fmt("{\"db\":\"%s\",\"api\":\"%s\",\"size\":%d,\"variant\":\"%s\",\"query\":%s,\"registry\":", Db::tag(), flavour, n, variant, jstr(q).c_str()) + names + "}";
  };
  auto keyf = [&](const char* what) { return std::string("c10:") + what + ":" + flavour; };
  auto oracle_index = [&](const std::string& q) -> int { for (uint16_t i = 0; i < n; i++) if (q == Db::name(reg[i])) return i; return -1; };
  auto guard = [&](const std::string& q, const std::function<void()>& body) {
    g_steps = 0; g_limit = 4L * n + 64; g_fault = 0; g_n = n;
    snprintf(g_journal, sizeof g_journal, "%s size %d variant %s query %.200s", Db::tag(), n, variant, q.c_str());
    if (!guarded) { body(); return; }
    if (setjmp(g_jb) == 0) body();
    else if (g_fault == 1) violation(keyf("out-of-bounds-slot-read"), desc(q).insert(1, fmt("\"slot\":%ld,", g_bad_index)));
    else violation(keyf("does-not-terminate"), desc(q).insert(1, fmt("\"comparisons\":%ld,", g_steps)));
  };
  std::vector<std::string> qs;
  for (auto z : reg) qs.push_back(Db::name(z));
  size_t npresent = qs.size();
  for (auto& s : absent_queries<Db>(reg, true)) qs.push_back(s);
  // second order of the same queries: every present name immediately followed by the absent names derived from it (same
  // prefix / same length and djb2 value) and by itself again - a "remember the last lookup" shortcut must not confuse them
  {
    auto djb = [](const std::string& t) { uint32_t h = 5381; for (unsigned char ch : t) h = h * 33 + ch; return h; };
    std::vector<std::string> seq;
    for (size_t pi = 0; pi < npresent; pi++) {
      const std::string& pn = qs[pi];
      seq.push_back(pn);
      for (size_t ai = npresent; ai < qs.size(); ai++) {
        const std::string& an = qs[ai];
        bool related = (pn.size() >= 2 && an.size() + 1 >= pn.size() && an.compare(0, pn.size() - 1, pn, 0, pn.size() - 1) == 0) || (an.size() == pn.size() && djb(an) == djb(pn));
        if (related) { seq.push_back(an); seq.push_back(pn); }
      }
    }
    for (auto& t : seq) qs.push_back(t);
  }
  for (size_t qi = 0; qi < qs.size(); qi++) {
    const std::string& q = qs[qi];
    int want = oracle_index(q);
    st.queries++; if (want >= 0) st.present++; else st.absent++;
    guard(q, [&]() {
      uint16_t got = mgr.indexForZoneName(q.c_str());
      if (want < 0) { if (got != ZoneManager::kInvalidIndex) violation(keyf("absent-name-found"), desc(q).insert(1, fmt("\"got_index\":%d,", got))); }
      else if (got == ZoneManager::kInvalidIndex) violation(keyf("present-name-not-found"), desc(q));
      else if (got >= n || q != Db::name(reg[got])) violation(keyf("wrong-entry"), desc(q).insert(1, fmt("\"got_index\":%d,", got)));
    });
    guard(q, [&]() {
      TimeZone tz = mgr.createForZoneName(q.c_str());
      if (want < 0) { if (!tz.isError()) violation(keyf("absent-name-gives-zone"), desc(q)); }
      else {
        if (tz.isError()) { violation(keyf("present-name-gives-error-zone"), desc(q)); return; }
        CapturePrint cp; tz.printTo(cp);
        if (tz.getZoneId() != Db::id(reg[want]) || cp.s != q) violation(keyf("zone-for-other-entry"), desc(q).insert(1, "\"printed\":" + jstr(cp.s) + ","));
      }
    });
  }
  // ids
  std::set<uint32_t> ids; for (auto z : reg) ids.insert(Db::id(z));
  std::vector<uint32_t> idq(ids.begin(), ids.end());
  for (uint32_t extra : {0u, 0xFFFFFFFFu, 1u}) idq.push_back(extra);
  for (auto z : reg) { idq.push_back(Db::id(z) + 1); idq.push_back(Db::id(z) - 1); }
  for (uint32_t id : idq) {
    st.idq++;
    int want = -1; for (uint16_t i = 0; i < n; i++) if (Db::id(reg[i]) == id) { want = i; break; }
    guard(fmt("id:0x%08x", id), [&]() {
      uint16_t got = mgr.indexForZoneId(id);
      TimeZone tz = mgr.createForZoneId(id);
      if (want < 0) { if (got != ZoneManager::kInvalidIndex || !tz.isError()) violation(keyf("absent-id-found"), desc(fmt("id:0x%08x", id))); }
      else if (got == ZoneManager::kInvalidIndex || got >= n || Db::id(reg[got]) != id || tz.isError() || tz.getZoneId() != id) violation(keyf("present-id-wrong"), desc(fmt("id:0x%08x", id)));
    });
  }
  // indices
  std::vector<uint32_t> ix; for (uint32_t i = 0; i <= (uint32_t)n + 1; i++) ix.push_back(i); ix.push_back(0xFFFF); ix.push_back(0xFFFE); ix.push_back(0x8000);
  for (uint32_t i : ix) {
    st.idxq++;
    guard(fmt("index:%u", i), [&]() {
      TimeZone tz = mgr.createForZoneIndex((uint16_t)i);
      if (i < n) { if (tz.isError() || tz.getZoneId() != Db::id(reg[i])) violation(keyf("index-wrong-zone"), desc(fmt("index:%u", i))); }
      else if (!tz.isError()) violation(keyf("index-out-of-range-gives-zone"), desc(fmt("index:%u", i)));
    });
  }
  if (mgr.registrySize() != n) violation(keyf("registrySize"), desc("registrySize"));
}

template <class Db> std::vector<std::vector<const typename Db::Info*>> bases(int n) {
  std::vector<std::vector<const typename Db::Info*>> out; const int N = Db::size();
  std::vector<const typename Db::Info*> a, b, c;
  for (int i = 0; i < n; i++) { a.push_back(Db::info(i)); b.push_back(Db::info((long)i * N / std::max(n, 1))); c.push_back(Db::info(N - n + i)); }
  out.push_back(a); if (n > 0) { out.push_back(b); out.push_back(c); }
  return out;
}

template <class Db> void partA(const Args& a, Counters& c) {
  typedef Kit<Db> K; typedef typename Db::Info ZI;
  Stats st;
  int item = 0;
  for (int n = 0; n <= 40; n++) {
    auto bs = bases<Db>(n);
    for (size_t bi = 0; bi < bs.size(); bi++) {
      // variants: sorted, reverse, rotate, each adjacent swap
      std::vector<std::pair<std::string, std::vector<const ZI*>>> vars;
      vars.push_back({"sorted", bs[bi]});
      if (n >= 2) {
        auto r = bs[bi]; std::reverse(r.begin(), r.end()); vars.push_back({"reversed", r});
        auto ro = bs[bi]; std::rotate(ro.begin(), ro.begin() + 1, ro.end()); vars.push_back({"rotated", ro});
        for (int k = 0; k + 1 < n; k++) { auto s = bs[bi]; std::swap(s[k], s[k + 1]); vars.push_back({fmt("swap%d", k), s}); }
        // registries ordered by zone id (ascending / descending): an order a user may well choose, and the one a by-id search would key on
        auto bi_ = bs[bi]; std::sort(bi_.begin(), bi_.end(), [](const ZI* x, const ZI* y) { return Db::id(x) < Db::id(y); }); vars.push_back({"by-id", bi_});
        std::reverse(bi_.begin(), bi_.end()); vars.push_back({"by-id-desc", bi_});
      }
      for (auto& v : vars) {
        if ((item++ % a.nshards) != a.shard) continue;
        // exact-size heap copy so that ASan also sees any raw out-of-range read
        const ZI** heap = (const ZI**)malloc(sizeof(ZI*) * std::max<size_t>(v.second.size(), 1));
        for (size_t i = 0; i < v.second.size(); i++) heap[i] = v.second[i];
        g_n = n; g_steps = 0; g_limit = 1000; g_fault = 0;
        typename K::Mgr* mgr = nullptr;
        if (setjmp(g_jb) == 0) mgr = new typename K::Mgr(n, heap);
        else { violation("c10:constructor-fault:instrumented", fmt("{\"size\":%d,\"variant\":\"%s\"}", n, v.first.c_str())); free(heap); continue; }
        st.registries++;
        bool is_sorted = true; for (int i = 1; i < n; i++) if (strcmp(Db::name(v.second[i - 1]), Db::name(v.second[i])) > 0) is_sorted = false;
        if (is_sorted && n > 0) st.sorted_regs++; else st.unsorted_regs++;
        query_all<Db>(*mgr, v.second, v.first.c_str(), "instrumented", st, true);
        // direct protected searches: binary search on every sorted registry (also below the threshold), linear on all
        if (is_sorted && n >= 1) {
          std::vector<std::string> qs; for (auto z : v.second) qs.push_back(Db::name(z));
          for (auto& s : absent_queries<Db>(v.second, true)) qs.push_back(s);
          for (auto& q : qs) {
            int want = -1; for (int i = 0; i < n; i++) if (q == Db::name(v.second[i])) want = i;
            st.direct++;
            g_steps = 0; g_limit = 4L * n + 64; g_fault = 0;
            snprintf(g_journal, sizeof g_journal, "direct binarySearchByName %s size %d query %.200s", Db::tag(), n, q.c_str());
            if (setjmp(g_jb) == 0) {
              uint16_t got = Fr::bin<typename K::Reg, ZI>(heap, n, q.c_str());
              uint16_t gl = Fr::lin<typename K::Reg, ZI>(heap, n, q.c_str());
              if ((want < 0) != (got == 0xffff) || (want >= 0 && got != want) || gl != (want < 0 ? 0xffff : want))
                violation("c10:direct-search-wrong:instrumented", fmt("{\"db\":\"%s\",\"size\":%d,\"query\":%s,\"binary\":%d,\"linear\":%d,\"want\":%d}", Db::tag(), n, jstr(q).c_str(), got, gl, want));
            } else violation(g_fault == 1 ? "c10:out-of-bounds-slot-read:direct-binarySearchByName" : "c10:does-not-terminate:direct-binarySearchByName",
                fmt("{\"db\":\"%s\",\"size\":%d,\"query\":%s,\"slot\":%ld,\"first\":%s,\"last\":%s}", Db::tag(), n, jstr(q).c_str(), g_bad_index, jstr(Db::name(v.second[0])).c_str(), jstr(Db::name(v.second[n-1])).c_str()));
          }
        }
        if (n > 0) {
          bool s = Fr::sorted<typename K::Reg, ZI>(heap, n);
          if (s != is_sorted) violation("c10:isSorted-wrong", fmt("{\"size\":%d,\"variant\":\"%s\",\"got\":%d}", n, v.first.c_str(), s));
        }
        if (st.registries % 500 == 1) sample(fmt("{\"db\":\"%s\",\"size\":%d,\"variant\":\"%s\",\"first\":%s}", Db::tag(), n, v.first.c_str(), n ? jstr(Db::name(v.second[0])).c_str() : "null"));
        delete mgr; free(heap);
      }
    }
  }
  c.add("registries", st.registries); c.add("name_queries", st.queries); c.add("present_queries", st.present); c.add("absent_queries", st.absent);
  c.add("id_queries", st.idq); c.add("index_queries", st.idxq); c.add("direct_search_calls", st.direct);
  c.add("sorted_registries", st.sorted_regs); c.add("unsorted_registries", st.unsorted_regs);
}

// Part B: stock typedefs, forked, ASan + watchdog.
template <class Db> void partB(const Args& a, Counters& c) {
  typedef Kit<Db> K; typedef typename Db::Info ZI;
  std::vector<std::pair<std::string, std::vector<const ZI*>>> regs;
  std::vector<const ZI*> full; for (int i = 0; i < Db::size(); i++) full.push_back(Db::info(i));
  regs.push_back({"full", full});
  for (int n : {0, 1, 2, 5, 6, 7, 8, 9, 16, 17, 40}) regs.push_back({fmt("prefix%d", n), bases<Db>(n)[0]});
  for (int n : {6, 8, 13}) { auto r = bases<Db>(n)[0]; std::reverse(r.begin(), r.end()); regs.push_back({fmt("reversed%d", n), r}); }
  int item = 0;
  for (auto& rv : regs) {
    if ((item++ % a.nshards) != a.shard) continue;
    const auto& reg = rv.second; const uint16_t n = reg.size();
    const ZI** heap = (const ZI**)malloc(sizeof(ZI*) * std::max<size_t>(n, 1));
    for (size_t i = 0; i < n; i++) heap[i] = reg[i];
    std::vector<std::string> qs; for (auto z : reg) qs.push_back(Db::name(z));
    for (auto& s : absent_queries<Db>(reg, true)) qs.push_back(s);
    // one isolated case per name query (so each failing query is reported), then one case for ids+indices
    run_isolated((long)qs.size() + 1, 2, [&](long i) {
      g_viol_per_key.clear();
      typename K::Stock mgr(n, heap);
      Stats st;
      if (i < (long)qs.size()) {
        const std::string& q = qs[i];
        int want = -1; for (uint16_t k = 0; k < n; k++) if (q == Db::name(reg[k])) want = k;
        uint16_t got = mgr.indexForZoneName(q.c_str());
        TimeZone tz = mgr.createForZoneName(q.c_str());
        bool ok = (want < 0) ? (got == ZoneManager::kInvalidIndex && tz.isError())
                             : (got == want && !tz.isError() && tz.getZoneId() == Db::id(reg[want]));
        if (!ok) { printf("{\"type\":\"violation\",\"key\":\"c10:stock-lookup-wrong:%s\",\"detail\":{\"registry\":\"%s\",\"query\":%s,\"got\":%d,\"want\":%d}}\n", Db::tag(), rv.first.c_str(), jstr(q).c_str(), got, want); }
      } else {
        std::vector<const ZI*> r2(reg.begin(), reg.begin() + std::min<size_t>(n, 60));
        typename K::Stock m2(r2.size(), heap);
        query_all<Db>(m2, r2, rv.first.c_str(), "stock", st, false);
        emit_violation_totals();
      }
    }, [&](long i, int status) {
      std::string q = i < (long)qs.size() ? qs[i] : "(ids+indices)";
      const char* how = WIFSIGNALED(status) && WTERMSIG(status) == SIGALRM ? "does-not-terminate" : "crash";
      violation(std::string("c10:") + how + ":stock", fmt("{\"db\":\"%s\",\"registry\":\"%s\",\"size\":%d,\"query\":%s,\"wait_status\":%d}", Db::tag(), rv.first.c_str(), n, jstr(q).c_str(), status), 8);
    }, 4);
    c.add("stock_registries"); c.add("stock_queries", qs.size());
    free(heap);
  }
}

int main(int argc, char** argv) {
  Args a = parse_args(argc, argv);
  Counters c;
  std::string part = a.get("part", "all");
  if (part == "A" || part == "all") { partA<ExtDb>(a, c); partA<BasicDb>(a, c); }
  if (part == "B" || part == "all") { partB<ExtDb>(a, c); partB<BasicDb>(a, c); }
  done(c);
  return 0;
}
