// C04 (C++ side): exact change-point table of the extended processor for every zone (minute walk + bisection to
// the second) and the offset it selects for every local minute near each transition.
#include "acetime_all.h"
#include "verif.h"
#include "civil.h"
#include "oracle_table.h"
#include "dbtraits.h"
using namespace ace_time;
using namespace verif;
#ifdef VERIF_GEN_NS
typedef GenDb DB;
#else
typedef ExtDb DB;
#endif
struct Val { int off, delta; char ab[12]; bool operator==(const Val& o) const { return off == o.off && delta == o.delta && !strcmp(ab, o.ab); } };
static Val at(const TimeZone& tz, int64_t t) { Val v; v.off = tz.getUtcOffset((acetime_t)t).toMinutes(); v.delta = tz.getDeltaOffset((acetime_t)t).toMinutes(); const char* a = tz.getAbbrev((acetime_t)t); strncpy(v.ab, a ? a : "", 11); v.ab[11] = 0; return v; }
int main(int argc, char** argv) {
  Args a = parse_args(argc, argv);
  Counters c;
  std::map<std::string, OZone> oracle = load_oracle(a.get("oracle"));
  int y0 = a.getl("y0", 2000), y1 = a.getl("y1", 2050), win = a.getl("win", 120);
  int64_t T0 = (civil::days_from_civil(y0, 1, 1) - civil::kEpoch2000Days) * 86400, T1 = (civil::days_from_civil(y1, 1, 1) - civil::kEpoch2000Days) * 86400;
  FILE* fb = fopen((a.get("out") + fmt(".%d.brk", a.shard)).c_str(), "w"); FILE* fl = fopen((a.get("out") + fmt(".%d.loc", a.shard)).c_str(), "wb");
  if (!fb || !fl) return 3;
  for (uint16_t zi = 0; zi < DB::size(); zi++) {
    if ((int)(zi % a.nshards) != a.shard) continue;
    const typename DB::Info* info = DB::info(zi); std::string nm = DB::name(info);
    typename DB::Processor proc; TimeZone tz = TimeZone::forZoneInfo(info, &proc);
    snprintf(g_journal, sizeof g_journal, "%s", nm.c_str());
#ifdef VERIF_GEN_NS
    if (verif_over_capacity(proc, tz)) { fprintf(fb, "Z %s\nO\n", nm.c_str()); c.add("zones_beyond_processor_capacity"); c.add("zones"); continue; }
#endif
    Val cur = at(tz, T0);
    fprintf(fb, "Z %s\nT %lld %d %d %s\n", nm.c_str(), (long long)T0, cur.off * 60, cur.delta * 60, cur.ab[0] ? cur.ab : "\"\"");
    uint64_t nb = 0;
    for (int64_t t = T0 + 60; t < T1; t += 60) {
      Val v = at(tz, t);
      if (v == cur) continue;
      // bisect the exact second in (t-60, t]
      int64_t lo = t - 60, hi = t;
      while (hi - lo > 1) { int64_t m = (lo + hi) / 2; if (at(tz, m) == cur) lo = m; else hi = m; }
      Val w = at(tz, hi);
      fprintf(fb, "T %lld %d %d %s\n", (long long)hi, w.off * 60, w.delta * 60, w.ab[0] ? w.ab : "\"\"");
      cur = w; nb++;
      if (!(w == v)) { t = hi - (hi % 60); }   // another change inside the same minute: re-walk
    }
    c.add("cxx_breakpoints", nb); c.add("cxx_minutes", (T1 - T0) / 60);
    // local minutes near every oracle transition
    auto it = oracle.find(nm);
    if (it != oracle.end()) {
      const OZone& oz = it->second;
      for (size_t k = 1; k < oz.e.size(); k++) {
        int64_t s = oz.e[k].start; if (s < T0 + 2 * 86400 || s >= T1 - 2 * 86400) continue;
        int64_t w1 = s + oz.e[k - 1].utoff, w2 = s + oz.e[k].utoff;
        for (int64_t L = std::min(w1, w2) - win * 60; L <= std::max(w1, w2) + win * 60; L += 60) {
          civil::Fields f = civil::fields_from_epoch2000(L);
          OffsetDateTime o = tz.getOffsetDateTime(LocalDateTime::forComponents((int16_t)f.y, f.mo, f.d, f.h, f.mi, f.s));
          int32_t sel = o.isError() ? INT32_MIN : (int32_t)(L - (int64_t)o.toEpochSeconds());
          struct __attribute__((packed)) { int32_t zi; int64_t L; int32_t sel; } r = {zi, L, sel};
          fwrite(&r, sizeof r, 1, fl); c.add("cxx_local_times");
        }
      }
    }
    c.add("zones");
  }
  fclose(fb); fclose(fl);
  done(c);
  return 0;
}
