// C06: calendar / epoch arithmetic, exhaustive domain sweeps against an
// independent Gregorian implementation and a Python datetime-generated table.
#include "acetime_all.h"
#include "verif.h"
#include "civil.h"
using namespace ace_time;
using namespace verif;

struct DayRow { int16_t y; uint8_t m, d; int32_t epochDays; uint8_t wd; uint8_t leap; uint8_t dim; uint8_t pad; };

static std::vector<DayRow> load_table(const std::string& path) {
  std::vector<DayRow> v; FILE* f = fopen(path.c_str(), "rb"); if (!f) { perror("table"); exit(3); }
  DayRow r; while (fread(&r, sizeof r, 1, f) == 1) v.push_back(r); fclose(f); return v;
}

static volatile long g_sink2 = 0;
int main(int argc, char** argv) {
  Args a = parse_args(argc, argv);
  Counters c;
  std::string part = a.get("part", "all");
  // ---------------- (i) all dates of 1873..2127
  if (part == "dates" || part == "all") if (a.shard == 0) {
    std::vector<DayRow> tab = load_table(a.get("table"));
    for (size_t i = 0; i < tab.size(); i++) {
      const DayRow& r = tab[i];
      journal("date", r.y, r.m, r.d);
      LocalDate ld = LocalDate::forComponents(r.y, r.m, r.d);
      c.add("dates");
      auto bad = [&](const char* what, long got, long want) {
        violation(std::string("c06:date:") + what, fmt("{\"y\":%d,\"m\":%d,\"d\":%d,\"got\":%ld,\"want\":%ld}", r.y, r.m, r.d, got, want));
      };
      if (ld.isError()) bad("isError-on-valid", 1, 0);
      int64_t hin = civil::days_from_civil(r.y, r.m, r.d) - civil::kEpoch2000Days;
      if (hin != r.epochDays) { fprintf(stderr, "oracle disagreement %d-%d-%d\n", r.y, r.m, r.d); return 4; }
      if (ld.toEpochDays() != r.epochDays) bad("toEpochDays", ld.toEpochDays(), r.epochDays);
      if (ld.toUnixDays() != r.epochDays + 10957) bad("toUnixDays", ld.toUnixDays(), r.epochDays + 10957);
      LocalDate back = LocalDate::forEpochDays(r.epochDays);
      if (back.year() != r.y || back.month() != r.m || back.day() != r.d || back.isError())
        bad("forEpochDays", back.year() * 10000 + back.month() * 100 + back.day(), r.y * 10000 + r.m * 100 + r.d);
      LocalDate backu = LocalDate::forUnixDays(r.epochDays + 10957);
      if (!(backu == ld)) bad("forUnixDays", backu.toEpochDays(), r.epochDays);
      if (ld.dayOfWeek() != r.wd) bad("dayOfWeek", ld.dayOfWeek(), r.wd);
      if (r.wd != civil::iso_weekday(r.epochDays + civil::kEpoch2000Days)) return 4;
      if (LocalDate::isLeapYear(r.y) != (bool)r.leap) bad("isLeapYear", LocalDate::isLeapYear(r.y), r.leap);
      if (LocalDate::daysInMonth(r.y, r.m) != r.dim) bad("daysInMonth", LocalDate::daysInMonth(r.y, r.m), r.dim);
      if (ld.yearTiny() != r.y - 2000) bad("yearTiny", ld.yearTiny(), r.y - 2000);
      // epoch-seconds of the date (only where it fits int32)
      int64_t es = (int64_t)r.epochDays * 86400;
      if (es > INT32_MIN && es <= INT32_MAX) {
        if (ld.toEpochSeconds() != es) bad("date-toEpochSeconds", ld.toEpochSeconds(), es);
        LocalDate b2 = LocalDate::forEpochSeconds((acetime_t)es);
        if (!(b2 == ld)) bad("date-forEpochSeconds", b2.toEpochDays(), r.epochDays);
        if (es + 86399 <= INT32_MAX) {
          LocalDate b3 = LocalDate::forEpochSeconds((acetime_t)(es + 86399));
          if (!(b3 == ld)) bad("date-forEpochSeconds-eod", b3.toEpochDays(), r.epochDays);
        }
      }
      int64_t us = ((int64_t)r.epochDays + 10957) * 86400;
      if (us > INT32_MIN && us <= INT32_MAX && es > INT32_MIN && es <= INT32_MAX) {
        if (ld.toUnixSeconds() != us) bad("date-toUnixSeconds", ld.toUnixSeconds(), us);
        LocalDate b4 = LocalDate::forUnixSeconds((acetime_t)us);
        if (!(b4 == ld)) bad("date-forUnixSeconds", b4.toEpochDays(), r.epochDays);
      }
      // increment / decrement
      if (i + 1 < tab.size()) {
        LocalDate n = ld; local_date_mutation::incrementOneDay(n);
        const DayRow& q = tab[i + 1];
        if (n.year() != q.y || n.month() != q.m || n.day() != q.d) bad("incrementOneDay", n.year() * 10000 + n.month() * 100 + n.day(), q.y * 10000 + q.m * 100 + q.d);
        LocalDate p = n; local_date_mutation::decrementOneDay(p);
        if (!(p == ld)) bad("dec(inc(x))", p.toEpochDays(), r.epochDays);
        if (ld.compareTo(n) != -1 || n.compareTo(ld) != 1 || ld.compareTo(ld) != 0) bad("compareTo", ld.compareTo(n), -1);
      } else {
        // 2127-12-31 + 1 day: yearTiny wraps to -128 == error sentinel
        LocalDate n = ld; local_date_mutation::incrementOneDay(n);
        if (!n.isError()) bad("increment-past-end-not-error", 0, 1);
      }
      if (i > 0) {
        LocalDate p = ld; local_date_mutation::decrementOneDay(p);
        const DayRow& q = tab[i - 1];
        if (p.year() != q.y || p.month() != q.m || p.day() != q.d) bad("decrementOneDay", p.year() * 10000 + p.month() * 100 + p.day(), q.y * 10000 + q.m * 100 + q.d);
        LocalDate n = p; local_date_mutation::incrementOneDay(n);
        if (!(n == ld)) bad("inc(dec(x))", n.toEpochDays(), r.epochDays);
      } else {
        LocalDate p = ld; local_date_mutation::decrementOneDay(p);
        if (!p.isError()) bad("decrement-past-start-not-error", 0, 1);
      }
      if (i % 9001 == 0) sample(fmt("{\"date\":\"%04d-%02d-%02d\",\"epochDays\":%d,\"dow\":%d}", r.y, r.m, r.d, r.epochDays, r.wd));
      c.add("date_checks", 22);
    }
    // years outside the valid range map to error
    for (int y = -32768; y <= 32767; y++) {
      journal("year", y);
      LocalDate ld = LocalDate::forComponents((int16_t)y, 6, 15);
      bool valid = (y >= 1873 && y <= 2127);
      if (ld.isError() == valid) violation("c06:date:year-validity", fmt("{\"year\":%d,\"isError\":%d}", y, ld.isError()));
      if (LocalDate::isYearValid((int16_t)y) != valid) violation("c06:date:isYearValid", fmt("{\"year\":%d}", y));
      LocalDateTime ldt = LocalDateTime::forComponents((int16_t)y, 6, 15, 1, 2, 3);
      if (ldt.isError() == valid) violation("c06:datetime:year-validity", fmt("{\"year\":%d}", y));
      c.add("year_checks");
    }
    // the conversions are pure functions: the same day right after another day (2^8, 2^15, 2^16 days away, the neighbour,
    // the error value, a date built from components) must give the same date as in the plain ascending sweep above
    {
      int64_t dmin = tab.front().epochDays, dmax = tab.back().epochDays;
      for (size_t i = 0; i < tab.size(); i++) {
        const DayRow& r = tab[i];
        for (int64_t delta : {(int64_t)65536, (int64_t)-65536, (int64_t)32768, (int64_t)-32768, (int64_t)256, (int64_t)-256, (int64_t)1, (int64_t)-1, (int64_t)0}) {
          int64_t other = r.epochDays + delta;
          if (other < dmin || other > dmax) continue;
          g_sink2 += LocalDate::forEpochDays((acetime_t)other).day();
          LocalDate back = LocalDate::forEpochDays(r.epochDays);
          if (back.year() != r.y || back.month() != r.m || back.day() != r.d)
            violation("c06:date:forEpochDays-depends-on-previous-call", fmt("{\"epochDays\":%d,\"previous_call\":%lld,\"got\":\"%d-%d-%d\",\"want\":\"%d-%d-%d\"}", r.epochDays, (long long)other, back.year(), back.month(), back.day(), r.y, r.m, r.d));
          LocalDate ld2 = LocalDate::forComponents(tab[(i * 7 + 3) % tab.size()].y, tab[(i * 7 + 3) % tab.size()].m, tab[(i * 7 + 3) % tab.size()].d); g_sink2 += ld2.toEpochDays();
          if (LocalDate::forComponents(r.y, r.m, r.d).toEpochDays() != r.epochDays) violation("c06:date:toEpochDays-depends-on-previous-call", fmt("{\"epochDays\":%d}", r.epochDays));
          c.add("date_reorder_checks");
        }
      }
    }
    // error sentinels
    if (!LocalDate::forEpochDays(LocalDate::kInvalidEpochDays).isError()) violation("c06:sentinel:forEpochDays", "{}");
    if (!LocalDate::forUnixDays(LocalDate::kInvalidEpochDays).isError()) violation("c06:sentinel:forUnixDays", "{}");
    if (!LocalDate::forEpochSeconds(LocalDate::kInvalidEpochSeconds).isError()) violation("c06:sentinel:forEpochSeconds", "{}");
    if (!LocalDate::forUnixSeconds(LocalDate::kInvalidEpochSeconds).isError()) violation("c06:sentinel:forUnixSeconds", "{}");
    if (!LocalDateTime::forEpochSeconds(LocalDate::kInvalidEpochSeconds).isError()) violation("c06:sentinel:dt-forEpochSeconds", "{}");
    if (!LocalDateTime::forUnixSeconds(LocalDate::kInvalidEpochSeconds).isError()) violation("c06:sentinel:dt-forUnixSeconds", "{}");
    if (!LocalTime::forSeconds(LocalTime::kInvalidSeconds).isError()) violation("c06:sentinel:time-forSeconds", "{}");
    if (LocalDate::forError().toEpochDays() != LocalDate::kInvalidEpochDays) violation("c06:sentinel:toEpochDays", "{}");
    if (LocalDate::forError().toEpochSeconds() != LocalDate::kInvalidEpochSeconds) violation("c06:sentinel:toEpochSeconds", "{}");
    if (LocalDateTime::forError().toEpochSeconds() != LocalDate::kInvalidEpochSeconds) violation("c06:sentinel:dt-toEpochSeconds", "{}");
    if (LocalDateTime::forError().toUnixSeconds() != LocalDate::kInvalidEpochSeconds) violation("c06:sentinel:dt-toUnixSeconds", "{}");
    if (LocalTime::forError().toSeconds() != LocalTime::kInvalidSeconds) violation("c06:sentinel:time-toSeconds", "{}");
  }
  // ---------------- (ii) all 2^24 byte triples, dates and times
  if (part == "triples" || part == "all") {
    uint64_t nerr = 0, nok = 0;
    for (int y = a.shard; y < 256; y += a.nshards) {
      for (int m = 0; m < 256; m++) for (int d = 0; d < 256; d++) {
        journal("triple", y, m, d);
        int8_t yt = (int8_t)y;
        LocalDate ld = LocalDate::forTinyComponents(yt, m, d);
        bool want_err = (yt == -128) || m < 1 || m > 12 || d < 1 || d > 31;
        if (ld.isError() != want_err) violation("c06:isError:date-triple", fmt("{\"yearTiny\":%d,\"month\":%d,\"day\":%d,\"isError\":%d}", yt, m, d, ld.isError()));
        LocalDateTime ldt = LocalDateTime::forTinyComponents(yt, m, d, 12, 0, 0);
        if (ldt.isError() != want_err) violation("c06:isError:datetime-date-part", fmt("{\"yearTiny\":%d,\"month\":%d,\"day\":%d}", yt, m, d));
        // time triple (y as hour)
        LocalTime lt = LocalTime::forComponents(y, m, d);
        bool terr = !((y < 24 && m < 60 && d < 60) || (y == 24 && m == 0 && d == 0));
        if (lt.isError() != terr) violation("c06:isError:time-triple", fmt("{\"hour\":%d,\"minute\":%d,\"second\":%d,\"isError\":%d}", y, m, d, lt.isError()));
        LocalDateTime ldt2 = LocalDateTime::forTinyComponents(0, 1, 1, y, m, d);
        if (ldt2.isError() != terr) violation("c06:isError:datetime-time-part", fmt("{\"hour\":%d,\"minute\":%d,\"second\":%d}", y, m, d));
        if (!terr) {
          int32_t s = y * 3600 + m * 60 + d;
          if (lt.toSeconds() != s) violation("c06:time:toSeconds", fmt("{\"hour\":%d,\"minute\":%d,\"second\":%d,\"got\":%d}", y, m, d, lt.toSeconds()));
          if (y < 24) {
            LocalTime b = LocalTime::forSeconds(s);
            if (!(b == lt)) violation("c06:time:forSeconds", fmt("{\"seconds\":%d}", s));
          }
          nok++;
        } else {
          if (lt.toSeconds() != LocalTime::kInvalidSeconds) violation("c06:time:toSeconds-of-error", fmt("{\"hour\":%d,\"minute\":%d,\"second\":%d}", y, m, d));
          nerr++;
        }
        if (want_err) {
          if (ld.toEpochDays() != LocalDate::kInvalidEpochDays || ld.toEpochSeconds() != LocalDate::kInvalidEpochSeconds
              || ld.toUnixDays() != LocalDate::kInvalidEpochDays || ld.toUnixSeconds() != LocalDate::kInvalidEpochSeconds)
            violation("c06:date:to*-of-error", fmt("{\"yearTiny\":%d,\"month\":%d,\"day\":%d}", yt, m, d));
        }
      }
    }
    c.add("triples", (uint64_t)(256 / a.nshards + (a.shard < 256 % a.nshards)) * 65536 * 2);
    c.add("time_triples_valid", nok); c.add("time_triples_error", nerr);
  }
  // ---------------- (iii) epoch seconds
  if (part == "seconds" || part == "all") {
    int64_t stride = a.getl("stride", 1);   // both tiers: every one of the 2^32-1 values (about 20 s on 16 cores)
    int64_t lo = (int64_t)INT32_MIN + 1, hi = INT32_MAX;
    int64_t span = (hi - lo + 1 + a.nshards - 1) / a.nshards;
    int64_t s0 = lo + span * a.shard, s1 = std::min<int64_t>(hi, s0 + span - 1);
    int64_t phase = (int64_t)(a.seed % stride);
    uint64_t n = 0, band = 0, distinct_days = 0; int64_t lastday = INT64_MIN;
    auto check = [&](int64_t t64) {
      acetime_t t = (acetime_t)t64;
      journal("second", t64);
      civil::Fields f = civil::fields_from_epoch2000(t64);
      // The first calendar day above -2^31 needs 86400*days < INT32_MIN inside the
      // library (signed overflow): judged by C09, counted here.
      bool overflow_band = t64 < (int64_t)-24855 * 86400;
      LocalDateTime dt = LocalDateTime::forEpochSeconds(t);
      n++;
      int64_t day = t64 >= 0 ? t64 / 86400 : -((-t64 + 86399) / 86400);
      if (day != lastday) { lastday = day; distinct_days++; }
      if (overflow_band) { band++; return; }
      if (dt.isError() || dt.year() != f.y || dt.month() != f.mo || dt.day() != f.d || dt.hour() != f.h || dt.minute() != f.mi || dt.second() != f.s)
        violation("c06:seconds:forEpochSeconds-fields", fmt("{\"epochSeconds\":%lld,\"got\":\"%d-%d-%dT%d:%d:%d\",\"want\":\"%lld-%u-%uT%u:%u:%u\"}", (long long)t64, dt.year(), dt.month(), dt.day(), dt.hour(), dt.minute(), dt.second(), (long long)f.y, f.mo, f.d, f.h, f.mi, f.s));
      if (dt.month() < 1 || dt.month() > 12 || dt.day() < 1 || dt.day() > civil::dim(dt.year(), dt.month()) || dt.hour() > 23 || dt.minute() > 59 || dt.second() > 59)
        violation("c06:seconds:fields-invalid", fmt("{\"epochSeconds\":%lld}", (long long)t64));
      if (dt.toEpochSeconds() != t) violation("c06:seconds:roundtrip", fmt("{\"epochSeconds\":%lld,\"back\":%d}", (long long)t64, dt.toEpochSeconds()));
      int64_t u = t64 + 946684800;
      if (u <= INT32_MAX) {
        if (dt.toUnixSeconds() != u) violation("c06:seconds:toUnixSeconds", fmt("{\"epochSeconds\":%lld,\"got\":%d}", (long long)t64, dt.toUnixSeconds()));
      }
      LocalDate ld = LocalDate::forEpochSeconds(t);
      if (!(ld == dt.localDate())) violation("c06:seconds:LocalDate-forEpochSeconds", fmt("{\"epochSeconds\":%lld}", (long long)t64));
      if (t64 - 946684800 > INT32_MIN) {
        // forUnixSeconds(t) denotes epoch second t-946684800
        LocalDateTime du = LocalDateTime::forUnixSeconds(t);
        civil::Fields g = civil::fields_from_epoch2000(t64 - 946684800);
        bool b2 = (t64 - 946684800) < (int64_t)-24855 * 86400;
        if (!b2 && (du.year() != g.y || du.month() != g.mo || du.day() != g.d || du.hour() != g.h || du.minute() != g.mi || du.second() != g.s))
          violation("c06:seconds:forUnixSeconds-fields", fmt("{\"unixSeconds\":%lld}", (long long)t64));
      }
    };
    for (int64_t t = s0 + phase; t <= s1; t += stride) check(t);
    if (stride > 1) {
      // boundaries: +-2 days around 0, the ends, every year start, handled by shard 0..n round-robin
      std::vector<int64_t> centres = {0, lo, hi, (int64_t)-24855 * 86400};
      for (int y = 1932; y <= 2068; y++) centres.push_back((civil::days_from_civil(y, 1, 1) - civil::kEpoch2000Days) * 86400);
      for (int y = 1932; y <= 2068; y += 4) centres.push_back((civil::days_from_civil(y, 3, 1) - civil::kEpoch2000Days) * 86400);
      for (size_t i = 0; i < centres.size(); i++) if ((int)(i % a.nshards) == a.shard) {
        int64_t w = (i < 4) ? 2 * 86400 : 4000;
        for (int64_t t = std::max(lo, centres[i] - w); t <= std::min(hi, centres[i] + w); t++) check(t);
      }
    }
    c.add("seconds", n); c.add("seconds_overflow_band_not_judged", band); c.add("seconds_distinct_days", distinct_days);
    if (a.shard == 0) sample(fmt("{\"epochSeconds\":%lld,\"fields\":\"%d\"}", (long long)s0, LocalDateTime::forEpochSeconds((acetime_t)s0).year()));
  }
  done(c);
  return 0;
}
