// C09: totality / memory safety sweeps under ASan (abort) + UBSan (report & continue):
//  S1 hostile scalar and component domains through every public factory/accessor
//  S2 parsers on exact-size heap strings of every length 0..30
//  S3 transition-buffer bounds for every shipped zone and year 1999..2050
#include "acetime_all.h"
#include "verif.h"
#include "civil.h"
#include "dbtraits.h"
#include "friends.h"
#include "isolate.h"
using namespace ace_time;
using namespace verif;

static volatile int64_t g_sink;
static CapturePrint g_cp;
template <class T> static void touch_dt(const T& v) {
  g_sink += v.isError(); g_sink += v.toEpochSeconds(); g_sink += v.toUnixSeconds(); g_sink += v.toEpochDays(); g_sink += v.toUnixDays();
  g_sink += v.year() + v.month() + v.day() + v.hour() + v.minute() + v.second();
  if (!v.isError()) g_sink += v.dayOfWeek();   // error values: probed in isolation by S4
  g_cp.clear(); v.printTo(g_cp); g_sink += g_cp.s.size();
}
static void touch_date(const LocalDate& v) {
  g_sink += v.isError(); g_sink += v.toEpochSeconds(); g_sink += v.toUnixSeconds(); g_sink += v.toEpochDays(); g_sink += v.toUnixDays();
  if (!v.isError()) g_sink += v.dayOfWeek();
  g_cp.clear(); v.printTo(g_cp);
}

static void s1_epoch(acetime_t t, Counters& c) {
  journal("epoch", t);
  bool sentinel = (t == INT32_MIN);
  LocalDate d1 = LocalDate::forEpochSeconds(t); touch_date(d1);
  LocalDate d2 = LocalDate::forUnixSeconds(t); touch_date(d2);
  LocalDateTime l1 = LocalDateTime::forEpochSeconds(t); touch_dt(l1);
  LocalDateTime l2 = LocalDateTime::forUnixSeconds(t); touch_dt(l2);
  if (sentinel && !(d1.isError() && d2.isError() && l1.isError() && l2.isError())) violation("c09:sentinel-not-error:Local*", "{}");
  static const int16_t offs[] = {0, 1, -1, 60, -60, 840, -720, 960, -960, 1439, -1439, 32767, -32767, TimeOffset::kErrorMinutes};
  for (int16_t om : offs) {
    g_j1 = om;
    TimeOffset off = TimeOffset::forMinutes(om);
    OffsetDateTime o1 = OffsetDateTime::forEpochSeconds(t, off); touch_dt(o1);
    OffsetDateTime o2 = OffsetDateTime::forUnixSeconds(t, off); touch_dt(o2);
    g_sink += o1.compareTo(o2); g_sink += o1.convertToTimeOffset(TimeOffset::forMinutes(-om == INT16_MIN ? 0 : -om)).toEpochSeconds();
    if ((sentinel || off.isError()) && !(o1.isError() && o2.isError())) violation("c09:sentinel-not-error:OffsetDateTime", fmt("{\"epoch\":%d,\"offset\":%d}", t, om));
  }
  TimeZone tzs[] = {TimeZone::forUtc(), TimeZone::forTimeOffset(TimeOffset::forMinutes(-480), TimeOffset::forMinutes(60)), TimeZone::forTimeOffset(TimeOffset::forMinutes(960)), TimeZone::forError()};
  for (auto& tz : tzs) {
    ZonedDateTime z1 = ZonedDateTime::forEpochSeconds(t, tz); touch_dt(z1);
    ZonedDateTime z2 = ZonedDateTime::forUnixSeconds(t, tz); touch_dt(z2);
    g_sink += z1.convertToTimeZone(tzs[1]).toEpochSeconds();
    if ((sentinel || tz.isError()) && !(z1.isError() && z2.isError())) violation("c09:sentinel-not-error:ZonedDateTime", fmt("{\"epoch\":%d}", t));
  }
  LocalTime lt = LocalTime::forSeconds(t); g_sink += lt.isError() + lt.toSeconds();
  TimePeriod tp(t); g_sink += tp.toSeconds() + tp.compareTo(TimePeriod(0)); g_cp.clear(); tp.printTo(g_cp);
  LocalDate e1 = LocalDate::forEpochDays(t); touch_date(e1);
  LocalDate e2 = LocalDate::forUnixDays(t); touch_date(e2);
  c.add("s1_epoch_values");
}

static void s1_components(const Args& a, Counters& c) {
  static const int years[] = {-32768, -1, 0, 1, 1872, 1873, 1874, 1900, 1931, 1932, 1999, 2000, 2001, 2037, 2038, 2049, 2050, 2067, 2068, 2069, 2100, 2126, 2127, 2128, 9999, 10000, 32767};
  static const int small[] = {0, 1, 2, 11, 12, 13, 23, 24, 25, 28, 29, 30, 31, 32, 59, 60, 61, 99, 127, 128, 254, 255};
  int item = 0;
  for (int y : years) for (int mo : small) {
    if ((item++ % a.nshards) != a.shard) continue;
    for (int d : small) for (int h : small) for (int mi : {0, 1, 30, 59, 60, 255}) for (int s : {0, 59, 60, 255}) {
      journal("components", y, mo * 1000 + d, h * 1000 + mi, s);
      LocalDateTime l = LocalDateTime::forComponents(y, mo, d, h, mi, s); touch_dt(l);
      bool want_err = !(y >= 1873 && y <= 2127 && mo >= 1 && mo <= 12 && d >= 1 && d <= 31 && ((h < 24 && mi < 60 && s < 60) || (h == 24 && mi == 0 && s == 0)));
      if (l.isError() != want_err) violation("c09:isError-components", fmt("{\"y\":%d,\"mo\":%d,\"d\":%d,\"h\":%d,\"mi\":%d,\"s\":%d,\"isError\":%d}", y, mo, d, h, mi, s, l.isError()));
      if (want_err && (l.toEpochSeconds() != LocalDate::kInvalidEpochSeconds || l.toUnixSeconds() != LocalDate::kInvalidEpochSeconds || l.toEpochDays() != LocalDate::kInvalidEpochDays))
        violation("c09:error-value-converts", fmt("{\"y\":%d,\"mo\":%d,\"d\":%d,\"h\":%d}", y, mo, d, h));
      c.add("s1_component_tuples");
      if (mi == 0 && s == 0) {
        for (int16_t om : {0, -960, 960, 32767, (int)TimeOffset::kErrorMinutes}) {
          OffsetDateTime o = OffsetDateTime::forComponents(y, mo, d, h, mi, s, TimeOffset::forMinutes(om)); touch_dt(o);
          if ((want_err || om == TimeOffset::kErrorMinutes) != o.isError()) violation("c09:isError-OffsetDateTime", fmt("{\"y\":%d,\"mo\":%d,\"d\":%d,\"h\":%d,\"off\":%d}", y, mo, d, h, om));
        }
        TimeZone tz = TimeZone::forTimeOffset(TimeOffset::forMinutes(-480));
        ZonedDateTime z = ZonedDateTime::forComponents(y, mo, d, h, mi, s, tz); touch_dt(z);
        if (z.isError() != want_err) violation("c09:isError-ZonedDateTime-manual", fmt("{\"y\":%d,\"mo\":%d,\"d\":%d,\"h\":%d}", y, mo, d, h));
        LocalDate ld = LocalDate::forComponents(y, mo, d); touch_date(ld);
        if (!ld.isError()) { LocalDate q = ld; local_date_mutation::incrementOneDay(q); touch_date(q); q = ld; local_date_mutation::decrementOneDay(q); touch_date(q); }
      }
    }
  }
  // static helpers over their whole argument domain
  if (a.shard == 0) {
    for (int y = -32768; y <= 32767; y += 1) { g_sink += LocalDate::isLeapYear(y); g_sink += LocalDate::isYearValid(y); for (int mo = 1; mo <= 12; mo++) g_sink += LocalDate::daysInMonth(y, mo); }
    for (int m = -32768; m <= 32767; m++) { TimeOffset o = TimeOffset::forMinutes(m); int8_t hh, mm; o.toHourMinute(hh, mm); g_sink += o.toSeconds() + hh + mm; g_cp.clear(); o.printTo(g_cp);
      if (m >= -960 && m <= 960) { TimeOffset q = o; time_offset_mutation::increment15Minutes(q); g_sink += q.toMinutes(); } }
    for (int h = -128; h <= 127; h++) for (int m = -128; m <= 127; m++) { TimeOffset o = TimeOffset::forHourMinute(h, m); g_sink += o.toMinutes(); TimeOffset p = TimeOffset::forHours(h); g_sink += p.toMinutes(); }
    for (int h = 0; h < 256; h++) for (int m = 0; m < 256; m += 5) for (int s : {0, 59, 255}) for (int sg : {-128, -1, 0, 1, 127}) { TimePeriod p(h, m, s, sg); g_sink += p.toSeconds(); g_cp.clear(); p.printTo(g_cp); }
    c.add("s1_static_helper_calls", 65536 * 13 + 65536 * 2 + 65536 * 2 + 256 * 52 * 15);
  }
}

// ---- S2: parsers. Strings are heap-allocated at exact size so that ASan sees any read past the terminator.
template <class F> static void with_heap_string(const std::string& s, F f) {
  char* p = (char*)malloc(s.size() + 1); memcpy(p, s.c_str(), s.size() + 1);
  snprintf(g_journal, sizeof g_journal, "parser input (len %zu): %.100s", s.size(), s.c_str());
  f((const char*)p); free(p);
}
static void s2_parsers(const Args& a, Counters& c) {
  if (a.shard != 0) return;
  std::vector<std::string> seeds = {"2020-02-29T12:34:56+01:00[America/Los_Angeles]", "1873-01-01T00:00:00-16:00", "2127-12-31T23:59:59+16:00", "9999999999999999999999999999999999999",
      "xxxxxxxxxxxxxxxxxxxxxxxxxxxxxxxxxxxxx", "::::::::::::::::::::::::::::::::::", "2020-13-32T25:61:61+99:99", "-12:30", "+00:00", "-00:45", "12:34:56", "2019-06-01"};
  for (auto& sd : seeds) for (size_t len = 0; len <= sd.size() && len <= 37; len++) {
    std::string s = sd.substr(0, len);
    journal("parser", len);
    with_heap_string(s, [&](const char* p) {
      LocalDate d = LocalDate::forDateString(p); touch_date(d);
      if (len < 10 && !d.isError()) violation("c09:short-string-not-error:LocalDate::forDateString", fmt("{\"input\":%s}", jstr(s).c_str()));
      LocalTime t = LocalTime::forTimeString(p); g_sink += t.isError();
      if (len < 8 && !t.isError()) violation("c09:short-string-not-error:LocalTime::forTimeString", fmt("{\"input\":%s}", jstr(s).c_str()));
      LocalDateTime l = LocalDateTime::forDateString(p); touch_dt(l);
      if (len < 19 && !l.isError()) violation("c09:short-string-not-error:LocalDateTime::forDateString", fmt("{\"input\":%s}", jstr(s).c_str()));
      TimeOffset o = TimeOffset::forOffsetString(p); g_sink += o.isError();
      if (len != 6 && !o.isError()) violation("c09:wrong-length-not-error:TimeOffset::forOffsetString", fmt("{\"input\":%s}", jstr(s).c_str()));
      OffsetDateTime od = OffsetDateTime::forDateString(p); touch_dt(od);
      if (len < 25 && !od.isError()) violation("c09:short-string-not-error:OffsetDateTime::forDateString", fmt("{\"input\":%s}", jstr(s).c_str()));
      ZonedDateTime z = ZonedDateTime::forDateString(p); touch_dt(z);
      if (len < 25 && !z.isError()) violation("c09:short-string-not-error:ZonedDateTime::forDateString", fmt("{\"input\":%s}", jstr(s).c_str()));
      LocalDateTime lf = LocalDateTime::forDateString(FPSTR(p)); touch_dt(lf);
      if ((len < 19 || len > 19) && !lf.isError()) violation("c09:F-string-length:LocalDateTime::forDateString", fmt("{\"input\":%s}", jstr(s).c_str()));
      OffsetDateTime of = OffsetDateTime::forDateString(FPSTR(p)); touch_dt(of);
      if ((len < 25 || len > 25) && !of.isError()) violation("c09:F-string-length:OffsetDateTime::forDateString", fmt("{\"input\":%s}", jstr(s).c_str()));
      ZonedDateTime zf = ZonedDateTime::forDateString(FPSTR(p)); touch_dt(zf);
    });
    c.add("s2_parser_inputs");
  }
}

// ---- S3: transition buffer bounds
static void s3_buffers(const Args& a, Counters& c) {
  typedef TransitionStorageTest_findTransitionForDateTime F;
  uint64_t maxhw = 0;
  for (uint16_t zi = 0; zi < ExtDb::size(); zi++) {
    if ((int)(zi % a.nshards) != a.shard) continue;
    const extended::ZoneInfo* info = ExtDb::info(zi);
    uint8_t bufSize = info->transitionBufSize;
    ExtendedZoneProcessor proc; TimeZone tz = TimeZone::forZoneInfo(info, &proc);
    for (int y = 1999; y <= 2050; y++) {
      snprintf(g_journal, sizeof g_journal, "buffer fill %s year %d", ExtDb::name(info), y);
      proc.resetTransitionHighWater();
      acetime_t t = (acetime_t)civil::epoch2000_from_fields(y, 6, 15, 0, 0, 0);
      if (y == 2050) t = (acetime_t)civil::epoch2000_from_fields(2050, 1, 1, 0, 0, 1);
      TimeOffset o = tz.getUtcOffset(t);
      uint8_t hw = proc.getTransitionHighWater();
      if (hw > maxhw) maxhw = hw;
      if (!(hw < bufSize) || !(hw < F::capacity())) violation(std::string("c09:transition-buffer-high-water:") + ExtDb::name(info), fmt("{\"zone\":\"%s\",\"year\":%d,\"highWater\":%d,\"transitionBufSize\":%d,\"capacity\":%d}", ExtDb::name(info), y, hw, bufSize, F::capacity()));
      int ip = F::indexPrior(proc), ic = F::indexCandidates(proc), fr = F::indexFree(proc);
      if (!(ip <= ic && ic <= fr && fr <= F::capacity())) violation(std::string("c09:transition-storage-indices:") + ExtDb::name(info), fmt("{\"zone\":\"%s\",\"year\":%d,\"prior\":%d,\"candidates\":%d,\"free\":%d}", ExtDb::name(info), y, ip, ic, fr));
      if (y >= 2000 && y < 2050 && o.isError()) violation(std::string("c09:in-range-year-error:") + ExtDb::name(info), fmt("{\"year\":%d}", y));
      c.add("s3_extended_zone_years");
    }
  }
  for (uint16_t zi = 0; zi < BasicDb::size(); zi++) {
    if ((int)(zi % a.nshards) != a.shard) continue;
    const basic::ZoneInfo* info = BasicDb::info(zi);
    BasicZoneProcessor proc; TimeZone tz = TimeZone::forZoneInfo(info, &proc);
    for (int y = 1999; y <= 2050; y++) {
      snprintf(g_journal, sizeof g_journal, "basic fill %s year %d", BasicDb::name(info), y);
      acetime_t t = (acetime_t)civil::epoch2000_from_fields(y, 6, 15, 0, 0, 0);
      if (y == 2050) t = (acetime_t)civil::epoch2000_from_fields(2050, 1, 2, 0, 0, 1);
      uint32_t before = verif_dropped(proc);
      TimeOffset o = tz.getUtcOffset(t);
      int n = BasicZoneProcessorTest_init::numTransitions(proc);
      if (verif_dropped(proc) != before || n > BasicZoneProcessorTest_init::capacity()) violation(std::string("c09:basic-cache-overflow:") + BasicDb::name(info), fmt("{\"zone\":\"%s\",\"year\":%d,\"dropped\":%u,\"numTransitions\":%d}", BasicDb::name(info), y, verif_dropped(proc) - before, n));
      if (y >= 2000 && y < 2050 && o.isError()) violation(std::string("c09:in-range-year-error:") + BasicDb::name(info), fmt("{\"year\":%d}", y));
      if (n > (int)maxhw - 100 && (uint64_t)n > c.c["max_basic_cache_slots_used"]) c.c["max_basic_cache_slots_used"] = n;
      c.add("s3_basic_zone_years");
    }
  }
  if (maxhw > c.c["max_extended_high_water"]) c.c["max_extended_high_water"] = maxhw;
}

// ---- S4: calls whose documentation disclaims validation, each in its own forked child (ASan aborts on an out-of-bounds read)
static void s4_unvalidated(const Args& a, Counters& c) {
  if (a.shard != 0) return;
  struct Case { const char* what; std::function<void()> f; };
  std::vector<Case> cases;
  cases.push_back({"LocalDate::dayOfWeek() on LocalDate::forError()", [] { g_sink += LocalDate::forError().dayOfWeek(); }});
  cases.push_back({"LocalDateTime::forEpochSeconds(kInvalidEpochSeconds).dayOfWeek()", [] { g_sink += LocalDateTime::forEpochSeconds(LocalDate::kInvalidEpochSeconds).dayOfWeek(); }});
  for (int mo : {0, 13, 14, 100, 255}) cases.push_back({mo == 0 ? "LocalDate::forComponents(2000,0,1).dayOfWeek()" : "LocalDate::forComponents(2000,13..255,1).dayOfWeek()", [mo] { g_sink += LocalDate::forComponents(2000, mo, 1).dayOfWeek(); }});
  for (int mo : {0, 13, 14, 100, 255}) cases.push_back({mo == 0 ? "LocalDate::daysInMonth(2000, 0)" : "LocalDate::daysInMonth(2000, 13..255)", [mo] { g_sink += LocalDate::daysInMonth(2000, mo); }});
  cases.push_back({"ZonedDateTime::forError().dayOfWeek()", [] { g_sink += ZonedDateTime::forError().dayOfWeek(); }});
  run_isolated((long)cases.size(), 5, [&](long i) { cases[i].f(); c.add("s4_cases"); },
    [&](long i, int status) {
      std::string w = cases[i].what;
      const char* fn = w.find("daysInMonth") != std::string::npos ? "LocalDate::daysInMonth" : "LocalDate::dayOfWeek";
      violation(std::string("c09:out-of-bounds-table-read:") + fn, fmt("{\"call\":%s,\"wait_status\":%d}", jstr(w).c_str(), status), 12);
    });
  c.add("s4_isolated_cases", cases.size());
}

int main(int argc, char** argv) {
  Args a = parse_args(argc, argv);
  Counters c;
  std::string part = a.get("part", "all");
  if (part == "s1" || part == "all") {
    int64_t lo = INT32_MIN, hi = INT32_MAX;
    int64_t stride = a.thorough ? 1 : 65521;
    if (a.thorough) stride = a.getl("stride", 251);   // every value would take hours under two sanitizers; dense prime stride + all boundaries
    int64_t span = (hi - lo + a.nshards) / a.nshards; int64_t s0 = lo + span * a.shard, s1 = std::min(hi, s0 + span - 1);
    for (int64_t t = s0 + (int64_t)(a.seed % stride); t <= s1; t += stride) s1_epoch((acetime_t)t, c);
    std::vector<int64_t> centres = {INT32_MIN, INT32_MAX, 0, -946684800LL, 946684800LL, (int64_t)INT32_MIN + 946684800LL, (int64_t)INT32_MAX - 946684800LL, -24855LL * 86400, 24855LL * 86400, 1577923200LL, -86400, 86400};
    for (size_t i = 0; i < centres.size(); i++) if ((int)(i % a.nshards) == a.shard)
      for (int64_t t = std::max(lo, centres[i] - 3000); t <= std::min(hi, centres[i] + 3000); t++) s1_epoch((acetime_t)t, c);
    s1_components(a, c);
  }
  if (part == "s2" || part == "all") s2_parsers(a, c);
  if (part == "s3" || part == "all") s3_buffers(a, c);
  if (part == "s4" || part == "all") s4_unvalidated(a, c);
  done(c);
  return 0;
}
