// Re-implementation, from their published semantics, of exactly the AceCommon
// entities that AceTime uses. Trusted base for C15 (padding) and C17 (increment).
#ifndef VERIF_SHIM_ACE_COMMON_H
#define VERIF_SHIM_ACE_COMMON_H
#include <stdint.h>
#include "Arduino.h"
namespace ace_common {
inline void printPad2To(Print& printer, uint16_t val, char pad = ' ') {
  if (val < 10) printer.print(pad);
  printer.print(val);
}
template <typename T> void incrementMod(T& d, T m) { d++; if (d >= m) d = 0; }
template <typename T> void incrementModOffset(T& d, T m, T offset) {
  d -= offset; d++; if (d >= m) d = 0; d += offset;
}
inline int strcmp_PP(const char* a, const char* b) {
  if (a == b) return 0;
  if (a == nullptr) return -1;
  if (b == nullptr) return 1;
  while (true) {
    uint8_t ca = pgm_read_byte(a), cb = pgm_read_byte(b);
    if (ca != cb) return (int)ca - (int)cb;
    if (ca == '\0') return 0;
    a++; b++;
  }
}
inline uint8_t decToBcd(uint8_t v) { return ((v / 10) << 4) | (v % 10); }
inline uint8_t bcdToDec(uint8_t v) { return (v >> 4) * 10 + (v & 0x0f); }
class TimingStats {
 public:
  TimingStats() { reset(); }
  void reset() { mMin = UINT16_MAX; mMax = 0; mSum = 0; mCount = 0; }
  uint16_t getMax() const { return mMax; }
  uint16_t getMin() const { return mMin; }
  uint16_t getAvg() const { return mCount ? mSum / mCount : 0; }
  uint16_t getCount() const { return mCount; }
  void update(uint16_t d) { mCount++; mSum += d; if (d > mMax) mMax = d; if (d < mMin) mMin = d; }
 private:
  uint16_t mMin, mMax; uint32_t mSum; uint16_t mCount;
};
}
#endif
