#ifndef VERIF_SHIM_PGMSPACE_H
#define VERIF_SHIM_PGMSPACE_H
#include <stdint.h>
#include <string.h>
#define PROGMEM
#define PGM_P const char*
#define PSTR(s) (s)
#define pgm_read_byte(p) (*reinterpret_cast<const uint8_t*>(p))
#define pgm_read_word(p) (*reinterpret_cast<const uint16_t*>(p))
#define pgm_read_dword(p) (*reinterpret_cast<const uint32_t*>(p))
#define pgm_read_float(p) (*reinterpret_cast<const float*>(p))
#define pgm_read_ptr(p) (*reinterpret_cast<const void* const*>(p))
#define strlen_P strlen
#define strcat_P strcat
#define strcpy_P strcpy
#define strncpy_P strncpy
#define strcmp_P strcmp
#define strncmp_P strncmp
#define strcasecmp_P strcasecmp
#define strchr_P strchr
#define strrchr_P strrchr
#define memcpy_P memcpy
#endif
