// Minimal host shim of <Arduino.h> for compiling seandst/AceTime off-target.
// Follows UnixHostDuino's definitions (PROGMEM is plain memory).
#ifndef VERIF_SHIM_ARDUINO_H
#define VERIF_SHIM_ARDUINO_H
#include <stdint.h>
#include <stddef.h>
#include <string.h>
#include <stdlib.h>
#include "pgmspace.h"
#include "WString.h"
#include "Print.h"
extern "C" unsigned long millis();
struct VerifSerialSink : public Print {
  size_t write(uint8_t) override { return 1; }
};
extern VerifSerialSink Serial;
#define SERIAL_PORT_MONITOR Serial
#endif
