#ifndef VERIF_SHIM_WSTRING_H
#define VERIF_SHIM_WSTRING_H
class __FlashStringHelper;
#define FPSTR(p) (reinterpret_cast<const __FlashStringHelper*>(p))
#define F(s) FPSTR(s)
#endif
