// Minimal Print base class (Arduino semantics: numbers in base 10, no padding).
#ifndef VERIF_SHIM_PRINT_H
#define VERIF_SHIM_PRINT_H
#include <stdint.h>
#include <stddef.h>
#include <string.h>
#include <stdio.h>
#include "WString.h"
class Print {
 public:
  virtual ~Print() {}
  virtual size_t write(uint8_t c) = 0;
  virtual size_t write(const uint8_t* buf, size_t n) {
    size_t k = 0; while (n--) k += write(*buf++); return k;
  }
  size_t write(const char* s) { return s ? write((const uint8_t*)s, strlen(s)) : 0; }
  size_t print(const __FlashStringHelper* s) { return write(reinterpret_cast<const char*>(s)); }
  size_t print(const char* s) { return write(s); }
  size_t print(char c) { return write((uint8_t)c); }
  size_t print(unsigned char v) { return print((unsigned long)v); }
  size_t print(int v) { return print((long)v); }
  size_t print(unsigned int v) { return print((unsigned long)v); }
  size_t print(long v) { char b[24]; snprintf(b, sizeof b, "%ld", v); return write(b); }
  size_t print(unsigned long v) { char b[24]; snprintf(b, sizeof b, "%lu", v); return write(b); }
  size_t println() { return write("\r\n"); }
  size_t println(const char* s) { size_t n = print(s); return n + println(); }
  size_t println(const __FlashStringHelper* s) { size_t n = print(s); return n + println(); }
  size_t println(int v) { size_t n = print(v); return n + println(); }
};
#endif
