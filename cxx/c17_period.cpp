// C17: TimePeriod, TimeOffset and the field-increment helpers, exhaustive over their (finite) domains.
#include "acetime_all.h"
#include "verif.h"
using namespace ace_time;
using namespace verif;
static volatile long g_sink17 = 0;
int main(int argc, char** argv) {
  Args a = parse_args(argc, argv);
  Counters c;
  if (a.shard != 0) { done(c); return 0; }
  // ---- TimePeriod: all 1,843,199 second counts
  for (int32_t s = -921599; s <= 921599; s++) {
    journal("period", s);
    TimePeriod p(s);
    auto bad = [&](const char* w) { violation(std::string("c17:period:") + w, fmt("{\"seconds\":%d,\"h\":%d,\"m\":%d,\"s\":%d,\"sign\":%d}", s, p.hour(), p.minute(), p.second(), p.sign())); };
    if (p.toSeconds() != s) bad("roundtrip");
    if (p.minute() >= 60 || p.second() >= 60) bad("field-range");
    int32_t as = s < 0 ? -s : s;
    if (p.hour() != as / 3600 || p.minute() != as % 3600 / 60 || p.second() != as % 60) bad("fields");
    if ((s < 0) != (p.sign() < 0) && s != 0) bad("sign");
    // neighbours, the negation, and values whose difference from s is next to 2^15 / 2^16 (16-bit difference arithmetic)
    for (int32_t o : {s - 1, s + 1, -s, s, s - 32767, s - 32768, s - 32769, s - 32780, s + 32767, s + 32768, s + 32769, s + 32780, s - 65535, s - 65536, s - 65537, s + 65535, s + 65536, s + 65537, s - 921600, s + 921600}) {
      if (o < -921599 || o > 921599) continue;
      TimePeriod q(o); int want = s < o ? -1 : (s > o ? 1 : 0);
      if (p.compareTo(q) != want) bad("compareTo");
      if ((p == q) != (s == o) && !(s == 0 && o == 0)) bad("equality");
      c.add("period_comparisons");
    }
    TimePeriod n = p; time_period_mutation::negate(n);
    if (n.hour() != p.hour() || n.minute() != p.minute() || n.second() != p.second() || n.sign() != -p.sign()) bad("negate-fields");
    if (n.toSeconds() != -s) bad("negate-value");
    // ordering must follow the signed length for values reached by negation too (a negated zero period has sign -1, length 0)
    for (int32_t o : {s, -s, -s - 1, -s + 1}) {
      if (o < -921599 || o > 921599) continue;
      TimePeriod q(o); int want = -s < o ? -1 : (-s > o ? 1 : 0);
      if (n.compareTo(q) != want || q.compareTo(n) != -want) bad("compareTo-negated");
      c.add("period_comparisons");
    }
    { TimePeriod n2 = n; if (n.compareTo(n2) != 0) bad("compareTo-negated-self"); }
    time_period_mutation::negate(n); if (!(n == p)) bad("negate-involution");
    // the same value built right after another one (2^8 / 2^16 seconds away, its negation): construction is a pure function
    for (int32_t delta : {65536, -65536, 256, -256, 0}) {
      int32_t o = delta ? s + delta : -s;
      if (o < -921599 || o > 921599) continue;
      TimePeriod other(o); g_sink17 += other.toSeconds();
      TimePeriod again(s);
      if (again.toSeconds() != s || !(again == p) || again.compareTo(p) != 0) bad("depends-on-previous-construction");
      c.add("period_reorder_checks");
    }
    c.add("period_seconds");
  }
  for (int h = 0; h < 256; h++) for (int m = 0; m < 60; m++) for (int s : {0, 1, 59}) for (int sg : {1, -1}) {
    TimePeriod p(h, m, s, sg); int32_t want = sg * (h * 3600 + m * 60 + s);
    if (p.toSeconds() != want) violation("c17:period:components-toSeconds", fmt("{\"h\":%d,\"m\":%d,\"s\":%d,\"sign\":%d,\"got\":%d}", h, m, s, sg, p.toSeconds()));
    if (TimePeriod(want).toSeconds() != want) violation("c17:period:ctor", fmt("{\"seconds\":%d}", want));
    c.add("period_components");
  }
  // ---- TimeOffset
  for (int h = -128; h <= 127; h++) for (int m = -128; m <= 127; m++) {
    journal("offset", h, m);
    bool consistent = (h >= 0 && m >= 0) || (h <= 0 && m <= 0);
    if (!consistent || m <= -60 || m >= 60) { c.add("offset_pairs_outside_statement"); continue; }
    TimeOffset o = TimeOffset::forHourMinute(h, m);
    int8_t hh, mm; o.toHourMinute(hh, mm);
    if (o.toMinutes() != h * 60 + m) violation("c17:offset:forHourMinute-minutes", fmt("{\"h\":%d,\"m\":%d,\"got\":%d}", h, m, o.toMinutes()));
    if (hh != h || mm != m) violation("c17:offset:toHourMinute", fmt("{\"h\":%d,\"m\":%d,\"got_h\":%d,\"got_m\":%d}", h, m, hh, mm));
    if (o.toSeconds() != 60 * (int32_t)o.toMinutes()) violation("c17:offset:toSeconds", fmt("{\"h\":%d,\"m\":%d}", h, m));
    if (m == 0 && TimeOffset::forHours(h).toMinutes() != h * 60) violation("c17:offset:forHours", fmt("{\"h\":%d}", h));
    c.add("offset_pairs");
  }
  for (int m = -32767; m <= 32767; m++) {
    TimeOffset o = TimeOffset::forMinutes(m);
    if (o.isError() || o.toMinutes() != m || o.toSeconds() != 60 * m || o.isZero() != (m == 0)) violation("c17:offset:forMinutes", fmt("{\"minutes\":%d}", m));
    c.add("offset_minutes");
  }
  if (!TimeOffset::forError().isError() || !TimeOffset::forMinutes(INT16_MIN).isError()) violation("c17:offset:error", "{}");
  for (int m = -960; m <= 960; m++) {
    journal("inc15", m);
    TimeOffset o = TimeOffset::forMinutes(m); time_offset_mutation::increment15Minutes(o);
    if (o.toMinutes() < -960 || o.toMinutes() > 960) violation("c17:increment15-out-of-range", fmt("{\"from\":%d,\"to\":%d}", m, o.toMinutes()));
    int want = (m + 15 > 960) ? -960 : m + 15;
    if (o.toMinutes() != want) violation("c17:increment15-step", fmt("{\"from\":%d,\"to\":%d}", m, o.toMinutes()));
    // cycles: returns to a value seen before within 129 steps and visits +16:00 -> -16:00
    TimeOffset q = TimeOffset::forMinutes(m); int steps = 0; bool wrapped = false;
    for (; steps < 200; steps++) { int before = q.toMinutes(); time_offset_mutation::increment15Minutes(q); if (q.toMinutes() < before) { wrapped = true; if (q.toMinutes() != -960) violation("c17:increment15-wrap-target", fmt("{\"from\":%d}", m)); } if (wrapped && q.toMinutes() >= -960 + 0 && steps > 130) break; }
    if (!wrapped) violation("c17:increment15-no-cycle", fmt("{\"from\":%d}", m));
    c.add("increment15_starts");
  }
  { TimeOffset q = TimeOffset::forMinutes(-960); int n = 0; do { time_offset_mutation::increment15Minutes(q); n++; } while (q.toMinutes() != -960 && n < 1000); if (n != 129) violation("c17:increment15-cycle-length", fmt("{\"length\":%d}", n)); }
  // ---- field increment helpers from every byte value
  TimeZone utc = TimeZone::forUtc();
  for (int v = 0; v < 256; v++) {
    journal("inc", v);
    ZonedDateTime z = ZonedDateTime::forComponents(2020, 6, 15, 10, 20, 30, utc);
    { ZonedDateTime d = z; d.yearTiny((int8_t)v); int8_t in = (int8_t)v; zoned_date_time_mutation::incrementYear(d);
      if (in >= 0 && in <= 126) { if (d.yearTiny() < 0 || d.yearTiny() > 99) violation("c17:incrementYear-range", fmt("{\"from\":%d,\"to\":%d}", in, d.yearTiny())); if (in < 99 && d.yearTiny() != in + 1) violation("c17:incrementYear-step", fmt("{\"from\":%d,\"to\":%d}", in, d.yearTiny())); if (in == 99 && d.yearTiny() != 0) violation("c17:incrementYear-wrap", "{}"); c.add("incrementYear_judged"); }
      else c.add("incrementYear_outside_documented_interval"); }
    { ZonedDateTime d = z; d.month(v); zoned_date_time_mutation::incrementMonth(d); if (d.month() < 1 || d.month() > 12) violation("c17:incrementMonth-range", fmt("{\"from\":%d,\"to\":%d}", v, d.month())); if (v >= 1 && v <= 12 && d.month() != v % 12 + 1) violation("c17:incrementMonth-step", fmt("{\"from\":%d,\"to\":%d}", v, d.month())); }
    { ZonedDateTime d = z; d.day(v); zoned_date_time_mutation::incrementDay(d); if (d.day() < 1 || d.day() > 31) violation("c17:incrementDay-range", fmt("{\"from\":%d,\"to\":%d}", v, d.day())); if (v >= 1 && v <= 31 && d.day() != v % 31 + 1) violation("c17:incrementDay-step", fmt("{\"from\":%d,\"to\":%d}", v, d.day())); }
    { ZonedDateTime d = z; d.hour(v); zoned_date_time_mutation::incrementHour(d); if (d.hour() > 23) violation("c17:incrementHour-range", fmt("{\"from\":%d,\"to\":%d}", v, d.hour())); if (v < 24 && d.hour() != (v + 1) % 24) violation("c17:incrementHour-step", fmt("{\"from\":%d}", v)); }
    { ZonedDateTime d = z; d.minute(v); zoned_date_time_mutation::incrementMinute(d); if (d.minute() > 59) violation("c17:incrementMinute-range", fmt("{\"from\":%d,\"to\":%d}", v, d.minute())); if (v < 60 && d.minute() != (v + 1) % 60) violation("c17:incrementMinute-step", fmt("{\"from\":%d}", v)); }
    { TimePeriod p(v, 0, 0); time_period_mutation::incrementHour(p); if (p.hour() > 23) violation("c17:period-incrementHour-range", fmt("{\"from\":%d,\"to\":%d}", v, p.hour())); if (v < 24 && p.hour() != (v + 1) % 24) violation("c17:period-incrementHour-step", fmt("{\"from\":%d}", v));
      for (int lim : {1, 2, 12, 24, 100, 255}) { TimePeriod q(v, 0, 0); time_period_mutation::incrementHour(q, lim); if (q.hour() >= lim) violation("c17:period-incrementHour-limit", fmt("{\"from\":%d,\"limit\":%d,\"to\":%d}", v, lim, q.hour()));
        if (v < lim && q.hour() != (v + 1) % lim) violation("c17:period-incrementHour-limit-step", fmt("{\"from\":%d,\"limit\":%d,\"to\":%d}", v, lim, q.hour())); } }
    { TimePeriod p(0, v, 0); time_period_mutation::incrementMinute(p); if (p.minute() > 59) violation("c17:period-incrementMinute-range", fmt("{\"from\":%d,\"to\":%d}", v, p.minute())); if (v < 60 && p.minute() != (v + 1) % 60) violation("c17:period-incrementMinute-step", fmt("{\"from\":%d}", v)); }
    c.add("increment_helper_inputs", 13);
  }
  sample("{\"period\":-921599,\"fields\":\"255:59:59 sign -1\"}"); sample("{\"offset\":[-16,0],\"minutes\":-960}");
  done(c);
  return 0;
}
