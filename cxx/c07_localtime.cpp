// C07: local date-time resolution (unique / overlap / gap) for every zone of
// both databases around every transition, against pre-images computed from the
// zic oracle table.
#include "acetime_all.h"
#include "verif.h"
#include "civil.h"
#include "oracle_table.h"
#include "dbtraits.h"
using namespace ace_time;
using namespace verif;
static const int64_t T_END = 1577923200LL;

template <class Db>
struct Resolver {
  const OZone& oz; std::string zname; typename Db::Processor proc; TimeZone tz;
  uint64_t n = 0, n_unique = 0, n_overlap = 0, n_gap = 0, n_complex = 0;
  std::set<int64_t> distinct_nontrivial;
  Resolver(const typename Db::Info* i, const OZone& o) : oz(o), zname(o.name), tz(TimeZone::forZoneInfo(i, &proc)) {}
  void bad(const char* what, int64_t L, const std::string& extra) {
    civil::Fields f = civil::fields_from_epoch2000(L);
    violation(std::string("c07:") + Db::tag() + ":" + what + ":" + zname,
        fmt("{\"zone\":\"%s\",\"processor\":\"%s\",\"local\":\"%04lld-%02u-%02uT%02u:%02u:%02u\",%s}", zname.c_str(), Db::tag(), (long long)f.y, f.mo, f.d, f.h, f.mi, f.s, extra.c_str()));
  }
  void resolve(int64_t L) {
    civil::Fields f = civil::fields_from_epoch2000(L);
    journal("resolve", L);
    snprintf(g_journal, sizeof g_journal, "%s %s", Db::tag(), zname.c_str());
    // pre-image set from the oracle
    size_t lo = oz.at(L - 18 * 3600), hi = oz.at(L + 18 * 3600);
    int64_t S[8]; int32_t SO[8]; int ns = 0;
    for (size_t k = lo; k <= hi; k++) {
      int64_t t = L - oz.e[k].utoff;
      int64_t end = (k + 1 < oz.e.size()) ? oz.e[k + 1].start : INT64_MAX;
      if (t >= oz.e[k].start && t < end && ns < 8) { S[ns] = t; SO[ns] = oz.e[k].utoff; ns++; }
    }
    ZonedDateTime z = ZonedDateTime::forComponents((int16_t)f.y, f.mo, f.d, f.h, f.mi, f.s, tz);
    n++;
    if (z.isError()) { bad("error-result", L, "\"preimages\":" + std::to_string(ns)); return; }
    int64_t r = z.toEpochSeconds();
    int32_t roff = (int32_t)z.timeOffset().toMinutes() * 60;
    // normalised: rebuilding from own epoch seconds gives same fields and offset
    ZonedDateTime back = ZonedDateTime::forEpochSeconds((acetime_t)r, tz);
    if (!(back.localDateTime() == z.localDateTime()) || back.timeOffset().toMinutes() != z.timeOffset().toMinutes())
      bad("not-normalised", L, fmt("\"result_epoch\":%lld,\"result_off_min\":%d,\"rebuilt_off_min\":%d", (long long)r, z.timeOffset().toMinutes(), back.timeOffset().toMinutes()));
    // the reported offset must be the one in force at the result instant
    if (r >= 0 && r < T_END && roff != oz.e[oz.at(r)].utoff)
      bad("offset-not-in-force", L, fmt("\"result_epoch\":%lld,\"result_off_s\":%d,\"oracle_off_s\":%d", (long long)r, roff, oz.e[oz.at(r)].utoff));
    if (ns == 1) {
      n_unique++;
      if (r != S[0] || roff != SO[0] || z.year() != f.y || z.month() != f.mo || z.day() != f.d || z.hour() != f.h || z.minute() != f.mi || z.second() != f.s)
        bad("unique-time-changed", L, fmt("\"want_epoch\":%lld,\"want_off_s\":%d,\"got_epoch\":%lld,\"got_off_s\":%d,\"got_fields\":\"%d-%02d-%02dT%02d:%02d:%02d\"", (long long)S[0], SO[0], (long long)r, roff, z.year(), z.month(), z.day(), z.hour(), z.minute(), z.second()));
    } else if (ns >= 2) {
      n_overlap++; distinct_nontrivial.insert(L);
      bool in = false; int64_t mx = S[0];
      for (int i = 0; i < ns; i++) { if (S[i] == r) in = true; if (S[i] > mx) mx = S[i]; }
      if (!in) bad("overlap-not-an-occurrence", L, fmt("\"got_epoch\":%lld,\"occurrences\":[%lld,%lld]", (long long)r, (long long)S[0], (long long)S[1]));
      else if (Db::Processor::kTypeExtended == proc.getType() && r != mx) bad("overlap-not-later", L, fmt("\"got_epoch\":%lld,\"later\":%lld", (long long)r, (long long)mx));
      else if (z.hour() != f.h || z.minute() != f.mi || z.day() != f.d) bad("overlap-fields-changed", L, "\"x\":0");
    } else {
      // gap: expected instant uses the offset in force before the gap
      int cnt = 0; int64_t want = 0;
      for (size_t k = lo + 1; k <= hi && k < oz.e.size(); k++) {
        if (L - oz.e[k - 1].utoff >= oz.e[k].start && L - oz.e[k].utoff < oz.e[k].start) { want = L - oz.e[k - 1].utoff; cnt++; }
      }
      if (cnt == 1) {
        n_gap++; distinct_nontrivial.insert(L);
        if (r != want) bad("gap-not-pre-gap-offset", L, fmt("\"want_epoch\":%lld,\"got_epoch\":%lld", (long long)want, (long long)r));
      } else n_complex++;
    }
  }
};

template <class Db> void run(const Args& a, Counters& c) {
  std::map<std::string, OZone> oracle = load_oracle(a.get("oracle"));
  const int64_t lo_t = 2 * 86400, hi_t = T_END - 2 * 86400;
  std::string only = a.get("zone");
  for (uint16_t zi = 0; zi < Db::size(); zi++) {
    if ((int)((zi + a.seed) % a.nshards) != a.shard) continue;
    const typename Db::Info* info = Db::info(zi);
    std::string nm = Db::name(info);
    if (!only.empty() && nm != only) continue;
    auto it = oracle.find(nm);
    if (it == oracle.end()) { violation(std::string("c07:no-oracle:") + nm, "{}"); continue; }
    const OZone& oz = it->second;
    Resolver<Db> R(info, oz);
    if (a.get("db") == "gen" && verif_over_capacity(R.proc, R.tz)) { c.add("zones_beyond_processor_capacity"); c.add("zones"); continue; }
    uint64_t ntr = 0;
    for (size_t k = 1; k < oz.e.size(); k++) {
      int64_t s = oz.e[k].start;
      if (s < lo_t || s >= hi_t) continue;
      ntr++;
      int64_t w1 = s + oz.e[k - 1].utoff, w2 = s + oz.e[k].utoff;
      int64_t a0 = std::min(w1, w2) - 200 * 60, a1 = std::max(w1, w2) + 200 * 60;
      for (int64_t L = a0; L <= a1; L += 60) R.resolve(L);
      // second-level edges of the gap/overlap
      for (int64_t L : {w1 - 1, w1, w1 + 1, w2 - 1, w2, w2 + 1, w1 + 59, w2 + 59}) R.resolve(L);
    }
    // regular wall-clock grid over the 50 years (6 h quick / 1 h thorough), phase rotated by seed
    int64_t g = a.thorough ? 3600 : 6 * 3600;
    for (int64_t L = lo_t + (int64_t)((a.seed * 7919) % (uint64_t)g) / 60 * 60; L < hi_t; L += g) R.resolve(L);
    c.add("transitions", ntr); c.add("resolutions", R.n); c.add("unique", R.n_unique); c.add("overlap", R.n_overlap); c.add("gap", R.n_gap);
    c.add("complex_not_judged", R.n_complex); c.add("distinct_gap_or_overlap_walltimes", R.distinct_nontrivial.size()); c.add("zones");
    if (zi % 40 == 0 && oz.e.size() > 3) {
      size_t k = oz.e.size() / 2; sample(fmt("{\"zone\":\"%s\",\"transition\":%lld,\"wall_before\":%lld,\"wall_after\":%lld}", nm.c_str(), (long long)oz.e[k].start, (long long)(oz.e[k].start + oz.e[k-1].utoff), (long long)(oz.e[k].start + oz.e[k].utoff)));
    }
  }
}

int main(int argc, char** argv) {
  Args a = parse_args(argc, argv);
  Counters c;
#ifdef VERIF_GEN_NS
  if (a.get("db") == "gen") { run<GenDb>(a, c); done(c); return 0; }
#endif
  if (a.get("db") == "zonedb") run<BasicDb>(a, c); else run<ExtDb>(a, c);
  done(c);
  return 0;
}
