// C01 / C02: every instant of 2000..2049 (minute grid + second probes in quick,
// every second in thorough) for every zone of a shipped database, on the real
// TimeZone + processor, against the zic-derived oracle table.
#include "acetime_all.h"
#include "verif.h"
#include "civil.h"
#include "oracle_table.h"
#include "dbtraits.h"
#include "friends.h"
using namespace ace_time;
using namespace verif;

static int64_t T_BEGIN = 0;
static int64_t T_END = 1577923200LL;  // 2050-01-01T00:00:00Z in AceTime epoch seconds
static std::string g_pid = "c01";

template <class Db, bool CROSS>
struct Sweeper {
  const typename Db::Info* info; const OZone& oz; std::string zname;
  typename Db::Processor proc; TimeZone tz;
  ExtendedZoneProcessor xproc; TimeZone xtz; bool have_x = false;
  Counters& c; uint64_t n = 0, nf = 0, fails = 0;
  Sweeper(const typename Db::Info* i, const OZone& o, Counters& cc)
      : info(i), oz(o), zname(o.name), tz(TimeZone::forZoneInfo(i, &proc)), c(cc) {
    if (CROSS) {
      const extended::ZoneInfo* x = find_zone<ExtDb>(zname.c_str());
      if (x) { xtz = TimeZone::forZoneInfo(x, &xproc); have_x = true; }
    }
  }
  void fail(const char* what, int64_t t, const OEnt& e, int goff, int gdelta, const char* gab) {
    fails++;
    violation(g_pid + ":" + what + ":" + zname,
        fmt("{\"zone\":\"%s\",\"processor\":\"%s\",\"epochSeconds\":%lld,\"got\":{\"utcOffsetMin\":%d,\"deltaMin\":%d,\"abbrev\":%s},\"want\":{\"utoff_s\":%d,\"isdst\":%d,\"abbrev\":\"%s\"}}",
            zname.c_str(), Db::tag(), (long long)t, goff, gdelta, jstr(gab ? gab : "(null)").c_str(), e.utoff, e.isdst, e.ab));
  }
  inline bool check(int64_t t64, const OEnt& e) {
    acetime_t t = (acetime_t)t64;
    g_j0 = t64;
    TimeOffset off = tz.getUtcOffset(t);
    TimeOffset del = tz.getDeltaOffset(t);
    const char* ab = tz.getAbbrev(t);
    n++;
    bool ok = true;
    if (off.isError() || (int32_t)off.toMinutes() * 60 != e.utoff) { fail("offset", t64, e, off.toMinutes(), del.toMinutes(), ab); ok = false; }
    else if (del.isError() || (del.toMinutes() != 0) != (e.isdst != 0)) { fail("dstflag", t64, e, off.toMinutes(), del.toMinutes(), ab); ok = false; }
    else if (!ab || strcmp(ab, e.ab) != 0) { fail("abbrev", t64, e, off.toMinutes(), del.toMinutes(), ab); ok = false; }
    if (CROSS && have_x) {
      TimeOffset xo = xtz.getUtcOffset(t); TimeOffset xd = xtz.getDeltaOffset(t); const char* xa = xtz.getAbbrev(t);
      if (xo.toMinutes() != off.toMinutes() || xd.toMinutes() != del.toMinutes() || strcmp(xa, ab ? ab : "") != 0) {
        fails++; ok = false;
        violation("c02:basic-vs-extended:" + zname, fmt("{\"zone\":\"%s\",\"epochSeconds\":%lld,\"basic\":[%d,%d,%s],\"extended\":[%d,%d,%s]}",
            zname.c_str(), (long long)t64, off.toMinutes(), del.toMinutes(), jstr(ab ? ab : "").c_str(), xo.toMinutes(), xd.toMinutes(), jstr(xa).c_str()));
      }
    }
    return ok;
  }
  inline void fields(int64_t t64, const OEnt& e) {
    acetime_t t = (acetime_t)t64;
    ZonedDateTime z = ZonedDateTime::forEpochSeconds(t, tz);
    civil::Fields f = civil::fields_from_epoch2000(t64 + e.utoff);
    nf++;
    if (z.isError() || z.year() != f.y || z.month() != f.mo || z.day() != f.d || z.hour() != f.h || z.minute() != f.mi || z.second() != f.s
        || (int32_t)z.timeOffset().toMinutes() * 60 != e.utoff) {
      fails++;
      violation(g_pid + ":fields:" + zname, fmt("{\"zone\":\"%s\",\"epochSeconds\":%lld,\"got\":\"%d-%02d-%02dT%02d:%02d:%02d off %d\",\"want\":\"%lld-%02u-%02uT%02u:%02u:%02u off_s %d\"}",
          zname.c_str(), (long long)t64, z.year(), z.month(), z.day(), z.hour(), z.minute(), z.second(), z.timeOffset().toMinutes(),
          (long long)f.y, f.mo, f.d, f.h, f.mi, f.s, e.utoff));
    }
  }
  // sweep [c0,c1) on a grid
  void sweep(int64_t c0, int64_t c1, int64_t step, int64_t fstep, int64_t fphase) {
    journal("sweep", 0, c0, c1);
    snprintf(g_journal, sizeof g_journal, "%s zone %s", Db::tag(), zname.c_str());
    size_t idx = oz.at(c0); const size_t ne = oz.e.size();
    int64_t next = (idx + 1 < ne) ? oz.e[idx + 1].start : INT64_MAX;
    int64_t fnext = c0 + fphase;
    for (int64_t t = c0; t < c1; t += step) {
      while (t >= next) { idx++; next = (idx + 1 < ne) ? oz.e[idx + 1].start : INT64_MAX; }
      check(t, oz.e[idx]);
      if (t >= fnext) { fields(t, oz.e[idx]); fnext += fstep; }
    }
  }
  // every minute within +-win seconds of each oracle breakpoint (used with a coarse grid)
  void windows(int64_t c0, int64_t c1, int64_t win) {
    for (size_t k = 1; k < oz.e.size(); k++) {
      int64_t b = oz.e[k].start; if (b < c0 || b >= c1) continue;
      for (int64_t t = std::max(T_BEGIN, b - win - b % 60); t <= b + win && t < T_END; t += 60) check(t, oz.e[oz.at(t)]);
    }
  }
  // second-level probes around oracle breakpoints and year boundaries in [c0,c1)
  void probes(int64_t c0, int64_t c1, uint64_t& bp_total, uint64_t& bp_ok) {
    for (size_t k = 1; k < oz.e.size(); k++) {
      int64_t b = oz.e[k].start;
      if (b < c0 || b >= c1) continue;
      bool ok = true;
      for (int d = -2; d <= 2; d++) {
        int64_t t = b + d; if (t < T_BEGIN || t >= T_END) continue;
        const OEnt& e = oz.e[oz.at(t)];
        ok &= check(t, e); fields(t, e);
      }
      bp_total++; if (ok) bp_ok++;
      if (bp_total % 997 == 1) sample(fmt("{\"zone\":\"%s\",\"breakpoint\":%lld,\"before\":[%d,%d,\"%s\"],\"after\":[%d,%d,\"%s\"]}", zname.c_str(), (long long)b,
          oz.e[k-1].utoff, oz.e[k-1].isdst, oz.e[k-1].ab, oz.e[k].utoff, oz.e[k].isdst, oz.e[k].ab));
    }
    for (int y = 2000; y <= 2050; y++) {
      int64_t b = (civil::days_from_civil(y, 1, 1) - civil::kEpoch2000Days) * 86400;
      for (int64_t base : {b, b + 86400}) {
        if (base < c0 || base > c1) continue;
        for (int d = -2; d <= 2; d++) {
          int64_t t = base + d; if (t < T_BEGIN || t >= T_END) continue;
          const OEnt& e = oz.e[oz.at(t)];
          check(t, e); fields(t, e);
        }
      }
    }
  }
};

static void check_highwater(ExtendedZoneProcessor& p, const extended::ZoneInfo* info, const std::string& nm, const std::string& pid, uint64_t& maxhw) {
  uint8_t hw = p.getTransitionHighWater(); if (hw > maxhw) maxhw = hw;
  if (!(hw < info->transitionBufSize) || !(hw < TransitionStorageTest_findTransitionForDateTime::capacity())) violation(pid + ":transition-buffer-high-water:" + nm, fmt("{\"zone\":\"%s\",\"highWater\":%d,\"transitionBufSize\":%d}", nm.c_str(), hw, info->transitionBufSize));
}
static void check_highwater(BasicZoneProcessor& p, const basic::ZoneInfo*, const std::string& nm, const std::string& pid, uint64_t&) {
  if (verif_dropped(p)) violation(pid + ":basic-cache-overflow:" + nm, fmt("{\"zone\":\"%s\",\"dropped\":%u}", nm.c_str(), verif_dropped(p)));
}

template <class Db, bool CROSS>
int run(const Args& a) {
  Counters c;
  std::map<std::string, OZone> oracle = load_oracle(a.get("oracle"));
  const int K = a.thorough ? 10 : 2;  // time chunks per zone
  uint64_t bp_total = 0, bp_ok = 0, zones_done = 0, dropped = 0, missing = 0;
  int64_t step = a.getl("step", a.thorough ? 1 : 60);
  int64_t win = a.getl("win", 0);
  uint64_t maxhw = 0, hwviol = 0;
  std::string only = a.get("zone");
  for (uint16_t zi = 0; zi < Db::size(); zi++) {
    const typename Db::Info* info = Db::info(zi);
    std::string nm = Db::name(info);
    if (!only.empty() && nm != only) continue;
    auto it = oracle.find(nm);
    if (it == oracle.end()) {
      if ((int)(zi % a.nshards) == a.shard) { missing++; violation(g_pid + ":no-oracle:" + nm, fmt("{\"zone\":\"%s\"}", nm.c_str())); }
      continue;
    }
    for (int k = 0; k < K; k++) {
      if ((int)((zi * K + k + a.seed) % a.nshards) != a.shard) continue;
      int64_t c0 = T_BEGIN + (T_END - T_BEGIN) / K * k, c1 = (k == K - 1) ? T_END : T_BEGIN + (T_END - T_BEGIN) / K * (k + 1);
      c0 -= c0 % 60;
      c1 -= c1 % 60;
      Sweeper<Db, CROSS> s(info, it->second, c);
      int64_t fstep = step >= 60 ? step * 7 : 60;
      s.sweep(c0, c1, step, fstep, step >= 60 ? (int64_t)(a.seed % 7) * step : 0);
      if (win) s.windows(c0, c1, win);
      s.probes(c0, c1, bp_total, bp_ok);
      check_highwater(s.proc, info, nm, g_pid, maxhw);
      c.add("instants", s.n); c.add("field_checks", s.nf);
      if (k == 0) zones_done++;
      c.add("zone_chunks");
      dropped += verif_dropped(s.proc);
      if (CROSS && s.have_x && k == 0) c.add("zones_shared_with_extended");
    }
  }
  c.add("zones", zones_done); c.add("breakpoints_probed", bp_total); c.add("breakpoints_confirmed", bp_ok);
  c.add("basic_dropped_transitions", dropped);
  if (maxhw > c.c["max_high_water"]) c.c["max_high_water"] = maxhw;
  done(c);
  return 0;
}

int main(int argc, char** argv) {
  Args a = parse_args(argc, argv);
  g_pid = a.get("pid", "c01");
#ifdef VERIF_GEN_NS
  if (a.get("db") == "gen") {
    T_BEGIN = (civil::days_from_civil(GenDb::startYear(), 1, 1) - civil::kEpoch2000Days) * 86400;
    T_END = (civil::days_from_civil(GenDb::untilYear(), 1, 1) - civil::kEpoch2000Days) * 86400;
    return run<GenDb, false>(a);
  }
#endif
  if (a.get("db") == "zonedb") return run<BasicDb, true>(a);
  return run<ExtDb, false>(a);
}
