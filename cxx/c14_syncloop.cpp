// C14: SystemClockLoop synchronisation state machine, explored breadth-first on the
// real class under an injected millisecond counter and a scripted reference clock.
#include "acetime_all.h"
#include "verif.h"
#include "mc.h"
#include <algorithm>
using namespace ace_time;
using namespace ace_time::clock;
using namespace verif;

static unsigned long g_ms = 0;
static const acetime_t BASE = 600000000;
static acetime_t true_time(unsigned long ms) { return BASE + (acetime_t)(ms / 1000); }

struct FakeRef : public Clock {
  mutable int sends = 0; mutable unsigned long lastSendMs = 0; mutable int reads = 0;
  bool ready = true; acetime_t value = 0; int sets = 0; acetime_t lastSet = 0;
  acetime_t getNow() const override { return value; }
  void sendRequest() const override { sends++; lastSendMs = g_ms; }
  bool isResponseReady() const override { return ready; }
  acetime_t readResponse() const override { reads++; return value; }
  void setNow(acetime_t v) override { sets++; lastSet = v; }
};
struct FakeBackup : public Clock {
  acetime_t v = BASE - 100; int sets = 0; acetime_t lastSet = 0;
  acetime_t getNow() const override { return v; }
  void setNow(acetime_t x) override { sets++; lastSet = x; v = x; }
};
class TLoop : public SystemClockLoop {
 public:
  TLoop(Clock* r, Clock* b, uint16_t sync, uint16_t init, uint16_t to) : SystemClockLoop(r, b, sync, init, to) {}
  unsigned long clockMillis() const override { return g_ms; }
};
class SystemClockLoopTest_loop {
 public:
  static uint8_t status(const SystemClockLoop& c) { return c.mRequestStatus; }
  static uint16_t period(const SystemClockLoop& c) { return c.mCurrentSyncPeriodSeconds; }
  static unsigned long reqStart(const SystemClockLoop& c) { return c.mRequestStartMillis; }
  static unsigned long lastSyncMs(const SystemClockLoop& c) { return c.mLastSyncMillis; }
};
class SystemClockLoopTest {
 public:
  static uint16_t prev(const SystemClock& c) { return c.mPrevMillis; }
  static acetime_t epoch(const SystemClock& c) { return c.mEpochSeconds; }
};
typedef SystemClockLoopTest_loop LF;

enum { A_VALID0, A_VALID3, A_NOTREADY, A_INVALID, A_N, A_BLIND = A_N };   // A_BLIND: loop() is called but nobody reads the clock (no-reference wiring only)
static const char* AN[] = {"ready+valid", "ready+valid(+3s)", "not-ready", "ready+invalid", "loop() only, clock not read"};
struct Ev { uint32_t delta; int answer; };
struct Cfg { uint16_t sync, init, timeout; int wiring; unsigned long start; };  // wiring 0: ref!=backup 1: ref==backup 2: no backup 3: no ref
static const char* WN[] = {"ref!=backup", "ref==backup", "no-backup", "no-reference"};

struct World {
  Cfg cfg; FakeRef ref; FakeBackup backup; TLoop* clk; unsigned long now;
  // reference model
  bool init = false; acetime_t T = 0; unsigned long m0 = 0; acetime_t lastSync = Clock::kInvalidSeconds; bool unjudged = false; unsigned long lastPoll;
  bool everSent = false; unsigned long lastSendMs = 0; uint32_t modelPeriod; uint32_t requiredGap = 0; int failures = 0;
  World(const Cfg& c) : cfg(c), now(c.start) {
    g_ms = now;
    Clock* r = c.wiring == 3 ? nullptr : &ref;
    Clock* b = c.wiring == 1 ? (Clock*)&ref : c.wiring == 0 || c.wiring == 3 ? (Clock*)&backup : nullptr;
    clk = new TLoop(r, b, c.sync, c.init, c.timeout);
    modelPeriod = c.init; lastPoll = now;
    if (c.wiring == 3) {
      // without a reference clock nothing ever sets the time: the application does (setNow), and loop() must keep it
      acetime_t v = true_time(now);
      clk->setNow(v);
      init = true; T = v; m0 = now; lastSync = v;
    }
  }
  ~World() { delete clk; }
  World(const World&) = delete;
  acetime_t model_now() const { return init ? T + (acetime_t)((now - m0) / 1000) : Clock::kInvalidSeconds; }
  std::string apply(const Ev& e) {
    now += e.delta; g_ms = now;
    if (now - lastPoll > 64536) unjudged = true;   // time keeping across such a gap is outside C13/C14
    lastPoll = now;
    if (e.answer == A_BLIND) {
      // "with no reference clock it only keeps time": loop() alone must keep the clock alive, also when nobody calls getNow()
      // for longer than the 16-bit millisecond window; the next observed step compares the reading with the model
      ref.ready = false;
      clk->loop();
      return (ref.sends || ref.reads) ? "bad:request-without-reference" : "ok";
    }
    ref.ready = (e.answer != A_NOTREADY);
    ref.value = e.answer == A_INVALID ? Clock::kInvalidSeconds : true_time(now) + (e.answer == A_VALID3 ? 3 : 0);
    uint8_t st0 = LF::status(*clk);
    int sends0 = ref.sends, reads0 = ref.reads, bsets0 = backup.sets, rsets0 = ref.sets;
    acetime_t before = clk->getNow();          // reading just before this loop() (same instant)
    acetime_t lastSync0 = clk->getLastSyncTime();
    clk->loop();
    acetime_t after = clk->getNow();
    std::string r = "ok";
    auto bad = [&](const char* w) { if (r == "ok") r = std::string("bad:") + w; };
    bool applied = false;
    if (cfg.wiring == 3) {
      if (ref.sends || ref.reads) bad("request-without-reference");
    } else if (st0 == SystemClockLoop::kStatusSent && ref.ready && ref.value != Clock::kInvalidSeconds) {
      applied = true;
      acetime_t v = ref.value;
      if (after != v) bad("valid-response-not-applied");
      if (clk->getLastSyncTime() != v) bad("lastSyncTime-not-updated");
      bool changed = (before != v);
      if (cfg.wiring == 0) {
        if (changed && !(backup.sets == bsets0 + 1 && backup.lastSet == v)) bad("backup-not-written-on-change");
        if (backup.sets > bsets0 + 1) bad("backup-written-twice");
      }
      if (cfg.wiring == 1 && ref.sets != rsets0) bad("reference-used-as-backup-was-written");
      if (changed || !init) { T = v; m0 = now; init = true; unjudged = false; }
      lastSync = v;
      if (ref.reads != reads0 + 1) bad("response-read-count");
    }
    if (!applied) {
      // no valid answer consumed in this call: clock and last-sync time must be untouched
      if (clk->getLastSyncTime() != lastSync0) bad("lastSyncTime-changed-without-valid-response");
      if (after != before) bad("clock-changed-without-valid-response");
      if (cfg.wiring == 0 && backup.sets != bsets0) bad("backup-written-without-valid-response");
    }
    if (!unjudged && after != model_now()) bad("time-not-kept");
    if (clk->isInit() != init) bad("isInit");
    // request spacing / back-off
    if (ref.sends > sends0) {
      if (ref.sends != sends0 + 1) bad("two-requests-in-one-loop");
      if (everSent) {
        unsigned long gap = now - lastSendMs;
        if (gap < (unsigned long)requiredGap * 1000UL) bad("request-sooner-than-retry-period");
      }
      everSent = true; lastSendMs = now;
    }
    // model of the period in force for the NEXT request, updated when a request completes
    uint8_t st1 = LF::status(*clk);
    if (st0 == SystemClockLoop::kStatusSent && st1 == SystemClockLoop::kStatusOk) { requiredGap = cfg.sync; modelPeriod = cfg.sync; failures = 0; }
    if (st0 == SystemClockLoop::kStatusSent && st1 == SystemClockLoop::kStatusWaitForRetry) {
      // this failure is followed by a wait of the period in force; the next failure waits twice as long (capped at the sync period)
      failures++; requiredGap = modelPeriod;
      uint32_t d = modelPeriod * 2; modelPeriod = d > cfg.sync ? cfg.sync : d;
    }
    if (st0 == SystemClockLoop::kStatusWaitForRetry && st1 == SystemClockLoop::kStatusReady) {
      if (LF::period(*clk) < modelPeriod) bad("retry-period-smaller-than-doubling");
      if (LF::period(*clk) > cfg.sync) bad("retry-period-above-sync-period");
    }
    // bounded liveness as a safety property: a request is outstanding or was sent recently enough
    if (cfg.wiring != 3) {
      unsigned long since = everSent ? now - lastSendMs : now - cfg.start;
      unsigned long bound = (unsigned long)cfg.sync * 1000UL + cfg.timeout + 3UL * e.delta + 3UL * maxDelta;
      if (since > bound && st1 != SystemClockLoop::kStatusSent && st1 != SystemClockLoop::kStatusReady) bad("no-request-within-bound");
    }
    return r;
  }
  static unsigned long maxDelta;
  // Canonical state. Every time quantity is relative to `now` and capped just above the largest threshold it is
  // ever compared with (timeout, period*1000, the liveness bound): beyond the cap every comparison has the same
  // outcome and adding any delta keeps it beyond the cap, so merged states have identical futures and verdicts.
  std::string key() const {
    uint8_t st = LF::status(*clk);
    const unsigned long capWait = std::max<unsigned long>((unsigned long)cfg.sync * 1000UL, cfg.timeout) + 1;
    const unsigned long capSend = (unsigned long)cfg.sync * 1000UL + cfg.timeout + 6UL * maxDelta + 1;
    unsigned long rel1 = (st == SystemClockLoop::kStatusSent || st == SystemClockLoop::kStatusWaitForRetry) ? std::min(now - LF::reqStart(*clk), capWait) : 0;
    unsigned long rel2 = (st == SystemClockLoop::kStatusOk) ? std::min(now - LF::lastSyncMs(*clk), capWait) : 0;
    long drift = init ? (long)SystemClockLoopTest::epoch(*clk) - (long)true_time(now) : -99;
    if (unjudged && (drift > 10 || drift < -10)) drift = 999;   // only "differs from any offered value" matters then
    int lastSyncOk = (clk->getLastSyncTime() == lastSync) ? 1 : 0;
    long lsRel = (lastSync == Clock::kInvalidSeconds) ? -99 : std::max(-10L, std::min(10L, (long)lastSync - (long)true_time(now)));
    unsigned long since = everSent ? std::min(now - lastSendMs, capSend) : std::min(now - cfg.start, capSend);
    unsigned long pollGap = 0;   // lastPoll == now after every event
    return fmt("%d|%u|%lu|%lu|%u|%ld|%d,%ld|%d%d|%lu|%u|%lu|%lu", st, LF::period(*clk), rel1, rel2, (unsigned)(uint16_t)((uint16_t)now - SystemClockLoopTest::prev(*clk)),
               drift, lastSyncOk, lsRel, (int)unjudged, (int)everSent, since, modelPeriod * 100000 + requiredGap, (unsigned long)(now % 1000), pollGap);
  }
};
unsigned long World::maxDelta = 0;

int main(int argc, char** argv) {
  Args a = parse_args(argc, argv);
  Counters c;
  static const Cfg cfgs[] = { {8, 1, 1000, 0, 0}, {16, 2, 500, 0, 0}, {5, 5, 1000, 0, 0}, {7, 3, 1000, 0, 0}, {1, 1, 100, 0, 0}, {60, 5, 1000, 0, 0}, {3600, 5, 1000, 0, 0}, {8, 1, 1000, 0, 4294963000UL} };
  int item = 0;
  const int depth = a.getl("depth", a.thorough ? 14 : 9);
  for (const Cfg& base : cfgs) for (int wiring = 0; wiring < 4; wiring++) {
    if ((item++ % a.nshards) != a.shard) continue;
    Cfg cfg = base; cfg.wiring = wiring;
    // 65536 and 65536 + timeout/2: waits whose low 16 bits are below the timeout (a 16-bit elapsed-time slip must not hide them)
    std::vector<uint32_t> deltas = {1, (uint32_t)cfg.timeout / 2, cfg.timeout, 1000, (uint32_t)cfg.init * 1000, (uint32_t)cfg.sync * 1000, (uint32_t)cfg.sync * 2000, 65536u, 65536u + (uint32_t)cfg.timeout / 2};
    std::sort(deltas.begin(), deltas.end()); deltas.erase(std::unique(deltas.begin(), deltas.end()), deltas.end());
    World::maxDelta = deltas.back();
    std::vector<Ev> alpha;
    for (uint32_t d : deltas) for (int an = 0; an < A_N; an++) { if (wiring == 3 && an > 0) continue; alpha.push_back({d, an}); }
    if (wiring == 3) for (uint32_t d : deltas) if (d >= 1000 && d <= 64536) alpha.push_back({d, A_BLIND});
    auto expected = [](const Ev&) { return std::string("ok"); };
    auto hist = [&](const std::vector<uint16_t>& h, uint16_t op) { std::string s; for (uint16_t x : h) s += fmt("+%ums %s; ", alpha[x].delta, AN[alpha[x].answer]); return s + fmt("+%ums %s", alpha[op].delta, AN[alpha[op].answer]); };
    auto mismatch = [&](const std::vector<uint16_t>& h, uint16_t op, const std::string& got, const std::string&) {
      violation("c14:" + got.substr(4), fmt("{\"config\":{\"syncPeriod\":%u,\"initialPeriod\":%u,\"timeoutMs\":%u,\"wiring\":\"%s\",\"startMillis\":%lu},\"events(loop calls)\":%s}", cfg.sync, cfg.init, cfg.timeout, WN[wiring], cfg.start, jstr(hist(h, op)).c_str()));
    };
    auto before = [&](const std::vector<uint16_t>& h, uint16_t op) {};
    McStats st = explore<World, Cfg, Ev>(cfg, alpha, depth, expected, mismatch, before, 400000);
    // same configuration, alphabet without the 1 ms step, explored to fixpoint (all schedules of any length over it)
    {
      std::vector<Ev> coarse; for (auto& e : alpha) if (e.delta >= 50) coarse.push_back(e);
      auto hist2 = [&](const std::vector<uint16_t>& h, uint16_t op) { std::string s; for (uint16_t x : h) s += fmt("+%ums %s; ", coarse[x].delta, AN[coarse[x].answer]); return s + fmt("+%ums %s", coarse[op].delta, AN[coarse[op].answer]); };
      auto mismatch2 = [&](const std::vector<uint16_t>& h, uint16_t op, const std::string& got, const std::string&) {
        violation("c14:" + got.substr(4), fmt("{\"config\":{\"syncPeriod\":%u,\"initialPeriod\":%u,\"timeoutMs\":%u,\"wiring\":\"%s\",\"startMillis\":%lu},\"events(loop calls)\":%s}", cfg.sync, cfg.init, cfg.timeout, WN[wiring], cfg.start, jstr(hist2(h, op)).c_str()));
      };
      McStats s2 = explore<World, Cfg, Ev>(cfg, coarse, a.thorough ? 3000 : 600, expected, mismatch2, before, a.thorough ? 1500000 : 200000);
      c.add("coarse_states", s2.states); c.add("coarse_transitions", s2.transitions); c.add("executions", s2.executions);
      c.add(s2.fixpoint ? "coarse_configs_to_fixpoint" : "coarse_configs_cut");
      if (s2.max_depth + 1 > c.c["max_coarse_depth"]) c.c["max_coarse_depth"] = s2.max_depth + 1;
    }
    c.add("states", st.states); c.add("transitions", st.transitions); c.add("executions", st.executions); c.add("configs");
    if (st.max_depth + 1 > c.c["max_depth"]) c.c["max_depth"] = st.max_depth + 1;
    c.add(st.fixpoint ? "configs_to_fixpoint" : "configs_cut_at_bound");
    sample(fmt("{\"config\":[%u,%u,%u,\"%s\"],\"states\":%llu,\"transitions\":%llu,\"depth\":%llu,\"alphabet\":%zu}", cfg.sync, cfg.init, cfg.timeout, WN[wiring], (unsigned long long)st.states, (unsigned long long)st.transitions, (unsigned long long)st.max_depth + 1, alpha.size()), 3);
  }
  // ---- back-off chain: the reference clock never gives a valid answer. For EVERY sync period 1..65535 (initial periods 1 and 5; a
  // residue class plus the neighbours of every power of two for 2, 3, 7, 1000 and sync-1) the complete failure chain - until the retry
  // period has saturated and three more failures - is driven on the real class; the World oracle judges every loop() call (spacing of
  // requests, doubling, cap at the sync period, clock untouched). Periods above 2^15 s make 16-bit doubling arithmetic wrap.
  {
    uint64_t chains = 0, events = 0, failures = 0; int reported = 0;
    for (uint32_t sync = 1; sync <= 65535; sync++) {
      if ((int)(sync % a.nshards) != a.shard) continue;
      bool near_pow2 = false; for (uint32_t p = 2; p <= 65536; p *= 2) if (sync + 2 >= p && sync <= p + 2) near_pow2 = true;
      std::vector<uint32_t> inits = {1, 5};
      if (near_pow2 || sync % 16 == (uint32_t)(a.seed % 16) || a.thorough) for (uint32_t i : {2u, 3u, 7u, 1000u, sync - 1}) if (i >= 1 && i <= sync) inits.push_back(i);
      for (uint32_t init : inits) {
        if (init > sync) continue;
        Cfg cfg{(uint16_t)sync, (uint16_t)init, 1000, 0, 0};
        World::maxDelta = sync * 1000UL + 2000;
        World w(cfg); chains++;
        std::string trace;
        auto step = [&](uint32_t d, int ans) { events++; std::string r = w.apply({d, ans}); if (trace.size() < 1500) trace += fmt("+%ums %s; ", d, AN[ans]); return r; };
        std::string bad;
        for (int guard = 0; guard < 400 && bad.empty(); guard++) {
          uint8_t st = LF::status(*w.clk);
          std::string r;
          if (st == SystemClockLoop::kStatusWaitForRetry) {
            // one millisecond before the modelled deadline (must still wait: judged by the spacing rule at the next send), then past it
            uint32_t gapms = w.requiredGap * 1000u;
            r = step(gapms > 2 ? gapms - 2 : 1, A_INVALID);
            if (r == "ok") r = step(3, A_INVALID);
          } else r = step(1, A_INVALID);
          if (r != "ok") bad = r;
          if (w.failures >= 3 && w.modelPeriod == sync && w.requiredGap == sync && w.failures >= 22) break;
        }
        failures += w.failures;
        if (bad.empty() && w.failures < 22) bad = "bad:failure-chain-stalled";
        if (!bad.empty() && reported++ < 4)
          violation("c14:backoff-chain:" + bad.substr(4), fmt("{\"config\":{\"syncPeriod\":%u,\"initialPeriod\":%u,\"timeoutMs\":1000,\"wiring\":\"ref!=backup\"},\"failures_so_far\":%d,\"events(loop calls)\":%s}", sync, init, w.failures, jstr(trace).c_str()));
      }
    }
    c.add("backoff_chains", chains); c.add("backoff_chain_events", events); c.add("backoff_chain_failures", failures);
  }
  done(c);
  return 0;
}
