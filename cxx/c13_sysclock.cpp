// C13: SystemClock keeps exact time from an injected millisecond counter.
//  P1  complete one-step transition relation of the clock automaton: all 65,536 values of
//      mPrevMillis x all distances 0..65,535 to the next poll (thorough) -- by induction this
//      closes every polling schedule of any length whose gaps are <= 64,536 ms.
//  P2  explicit multi-step schedules (BFS over a gap alphabet) with the 64-bit counter
//      straddling 2^16 and 2^32.
//  P3  histories mixing settings and polls against a reference model (explicit-state BFS).
//  P4  the first setting of a never-set clock: every 16-bit phase x every value next to the sentinel / zero.
#include "acetime_all.h"
#include "verif.h"
#include "mc.h"
using namespace ace_time;
using namespace ace_time::clock;
using namespace verif;

static unsigned long g_ms = 0;
class TClock : public SystemClock {
 public:
  TClock(Clock* ref = nullptr, Clock* backup = nullptr) : SystemClock(ref, backup) {}
  unsigned long clockMillis() const override { return g_ms; }
};
// friend-named accessor declared by SystemClock.h
class SystemClockLoopTest {
 public:
  static uint16_t prev(const SystemClock& c) { return c.mPrevMillis; }
  static acetime_t epoch(const SystemClock& c) { return c.mEpochSeconds; }
};
typedef SystemClockLoopTest SF;

static const acetime_t T0 = 500000000;

static void p1(const Args& a, Counters& c) {
  // phases handled by this shard
  uint64_t n = 0, wrapped16 = 0;
  int pstep = 1;   // both tiers: all 65,536 phases (the complete one-step relation costs ~10 s on 16 cores)
  std::vector<uint32_t> phases;
  for (uint32_t p = (a.seed % pstep); p < 65536; p += pstep) phases.push_back(p);
  if (!a.thorough) for (uint32_t p : {0u, 1u, 535u, 536u, 999u, 1000u, 64535u, 64536u, 65535u, 32768u}) phases.push_back(p);
  static const unsigned long bases[] = {0UL, 0xFFFF0000UL, 0xFFFFFFFF0000UL, 0x100000000UL - 0x10000UL};
  for (size_t pi = 0; pi < phases.size(); pi++) {
    if ((int)(pi % a.nshards) != a.shard) continue;
    uint32_t m0 = phases[pi];
    unsigned long base = bases[pi % 4];
    for (uint32_t D = 0; D <= 65535; D++) {
      journal("p1", m0, D);
      TClock clk;
      g_ms = base + m0;
      clk.setNow(T0);
      g_ms = base + m0 + D;
      acetime_t got = clk.getNow();
      n++;
      if ((m0 + D) > 65535) wrapped16++;
      acetime_t want = T0 + D / 1000;
      uint16_t wantPrev = (uint16_t)(m0 + 1000 * (D / 1000));
      if (got != want || SF::prev(clk) != wantPrev || SF::epoch(clk) != want)
        violation("c13:one-step-transition", fmt("{\"m0_mod_65536\":%u,\"distance_ms\":%u,\"got\":%d,\"want\":%d,\"mPrevMillis\":%u,\"wantPrev\":%u}", m0, D, got - T0, want - T0, SF::prev(clk), wantPrev));
      // a second immediate read must agree and never decrease
      acetime_t again = clk.getNow();
      if (again != got) violation("c13:reread-differs", fmt("{\"m0\":%u,\"distance_ms\":%u}", m0, D));
    }
  }
  c.add("p1_transitions", n); c.add("p1_crossing_2^16", wrapped16); c.add("p1_phases", phases.size() / a.nshards + ((int)(phases.size() % a.nshards) > a.shard));
  if (a.shard == 0) sample(fmt("{\"p1\":\"set(T)@m0=%u then poll at distance D for every D in 0..65535\"}", phases.empty() ? 0 : phases[0]));
}

static void p2(const Args& a, Counters& c) {
  if (a.shard != 1 % a.nshards) return;
  static const uint32_t gaps[] = {1, 500, 999, 1000, 1001, 1999, 2000, 12345, 32768, 60000, 64535, 64536};
  const int NG = sizeof gaps / sizeof gaps[0];
  static const unsigned long starts[] = {0UL, 65000UL, 65535UL, 0xFFFFFF00UL, 0xFFFFFFFFUL - 700, 0x100000000UL + 999, 123456789UL};
  const int depth = a.thorough ? 6 : 5;
  uint64_t n = 0, polls = 0, over16 = 0, over32 = 0;
  for (unsigned long st : starts) {
    std::vector<int> idx(depth, 0);
    while (true) {
      TClock clk; g_ms = st; clk.setNow(T0);
      unsigned long m = st; acetime_t last = T0; bool c16 = false, c32 = false;
      for (int k = 0; k < depth; k++) {
        unsigned long m2 = m + gaps[idx[k]];
        if ((m2 >> 16) != (m >> 16)) c16 = true;
        if ((m2 >> 32) != (m >> 32)) c32 = true;
        m = m2;
        g_ms = m; acetime_t got = clk.getNow(); polls++;
        acetime_t want = T0 + (acetime_t)((m - st) / 1000);
        if (got != want) { std::string s; for (int q = 0; q <= k; q++) s += fmt("%u,", gaps[idx[q]]); violation("c13:schedule-reading-wrong", fmt("{\"start_millis\":%lu,\"gaps_ms\":[%s],\"got\":%d,\"want\":%d}", st, s.c_str(), got - T0, want - T0)); break; }
        if (got < last) violation("c13:reading-decreased", fmt("{\"start_millis\":%lu}", st));
        last = got;
      }
      n++; over16 += c16; over32 += c32;
      int k = depth - 1; while (k >= 0 && ++idx[k] == NG) { idx[k] = 0; k--; }
      if (k < 0) break;
    }
  }
  c.add("p2_schedules", n); c.add("p2_polls", polls); c.add("p2_schedules_crossing_2^16", over16); c.add("p2_schedules_crossing_2^32", over32);
  sample(fmt("{\"p2\":\"all %d^%d gap sequences from 7 start values\"}", NG, depth));
}

// ---- P3: settings + polls, reference model
struct Op3 { int kind; int64_t arg; const char* name; };  // kind 0=set(value) 1=advance+read(gap) 2=read lastSync/isInit
struct Cfg3 { unsigned long start; };
static std::vector<Op3> g_ops3;
struct World3 {
  TClock clk; unsigned long m; bool init = false; int64_t T = 0; unsigned long mset = 0; int64_t lastSync = INT32_MIN; int64_t lastRead = INT64_MIN; unsigned long lastTouch = 0; bool unjudged = false;
  // classification helpers for the most recent effective set
  bool set_matched_true_time = false, set_matched_stale = false;
  World3(const Cfg3& c) : m(c.start) { g_ms = m; }
  int64_t model_now() const { return init ? T + (int64_t)((m - mset) / 1000) : (int64_t)INT32_MIN; }
  std::string apply(const Op3& op) {
    g_ms = m;
    if (op.kind == 0) {
      acetime_t v = (acetime_t)op.arg;
      if (v != Clock::kInvalidSeconds) {
        set_matched_stale = (SF::epoch(clk) == v);            // cached second equals the new value (D7, fixed)
        // what the clock would read right now, computed from its fields WITHOUT calling getNow() (a read here could mask a stale-cache bug)
        set_matched_true_time = clk.isInit() && (int64_t)SF::epoch(clk) + (uint16_t)((uint16_t)g_ms - SF::prev(clk)) / 1000 == (int64_t)v;   // setNow(v) while reading v is a no-op by design (known finding)
        clk.setNow(v);
        init = true; T = v; mset = m; lastSync = v; lastRead = INT64_MIN; lastTouch = m; unjudged = false;
      } else clk.setNow(v);
      return "ok";
    }
    if (op.kind == 1) {
      m += (unsigned long)op.arg; g_ms = m;
      acetime_t got = clk.getNow();
      int64_t want = model_now();
      std::string r = "ok";
      if (init && m - lastTouch > 64536) unjudged = true;   // gap larger than the statement allows: not judged until the next setting
      lastTouch = m;
      if (unjudged) { lastRead = got; return "ok"; }
      if (got != want) {
        // the known finding D12 is a deviation of at most one second (old sub-second phase kept); anything larger is a different failure
        const char* cls = (set_matched_true_time && got - want >= -1 && got - want <= 1) ? "resync-to-current-second-keeps-old-phase" : (set_matched_stale ? "set-ignored-because-stale-epoch-equal" : "reading-wrong");
        r = fmt("bad:%s got=%lld want=%lld", cls, (long long)got - T0, want == INT32_MIN ? (long long)INT32_MIN : (long long)want - T0);
      } else if (init && lastRead != INT64_MIN && got < lastRead) r = "bad:reading-decreased";
      if (clk.isInit() != init) r = "bad:isInit";
      lastRead = got;
      return r;
    }
    if (clk.getLastSyncTime() != (acetime_t)lastSync) return fmt("bad:getLastSyncTime got=%d", clk.getLastSyncTime());
    if (clk.isInit() != init) return "bad:isInit";
    return "ok";
  }
  std::string key() const {
    // behaviourally complete: init flag, remainder phase, epoch error vs model, lastSync relation, stale relation to each settable value
    int64_t e = SF::epoch(clk);
    return fmt("%d%d|%lu|%u|%lld|%lld|%lld|%u", (int)unjudged, (int)clk.isInit(), (unsigned long)(m - lastTouch), (unsigned)(uint16_t)((uint16_t)m - SF::prev(clk)), init ? (long long)(e - T0) : -1LL,
               init ? (long long)(model_now() - T0) : -1LL,  (long long)(lastSync == INT32_MIN ? -1 : lastSync - T0), (unsigned)((m - mset) % 1000));
  }
};

static void p3(const Args& a, Counters& c) {
  if (a.shard != 2 % a.nshards) return;
  g_ops3 = { {0, T0, "setNow(T1)"}, {0, T0 - 5, "setNow(T1-5)"}, {0, T0 + 5, "setNow(T1+5)"}, {0, T0 + 1, "setNow(T1+1)"}, {0, T0 + 65536, "setNow(T1+65536)"}, {0, T0 - 131072 + 5, "setNow(T1-131072+5)"}, {0, (int64_t)INT32_MIN, "setNow(sentinel)"},
             {1, 0, "advance 0 ms; getNow"}, {1, 1, "advance 1 ms; getNow"}, {1, 999, "advance 999 ms; getNow"}, {1, 1000, "advance 1000 ms; getNow"}, {1, 1001, "advance 1001 ms; getNow"},
             {1, 5000, "advance 5000 ms; getNow"}, {1, 64536, "advance 64536 ms; getNow"}, {2, 0, "getLastSyncTime/isInit"},
             {3, 500, "advance 500 ms (no read)"}, {3, 5000, "advance 5000 ms (no read)"} };
  // kind 3 handled as silent advance
  struct W : World3 { W(const Cfg3& c) : World3(c) {} std::string apply(const Op3& op) { if (op.kind == 3) { m += op.arg; g_ms = m; return "ok"; } return World3::apply(op); } };
  int depth = a.thorough ? 6 : 5;
  uint64_t states = 0, trans = 0, exec = 0;
  for (unsigned long start : {0UL, 65000UL, 0xFFFFFC00UL}) {
    Cfg3 cfg{start};
    auto expected = [](const Op3&) { return std::string("ok"); };
    auto mismatch = [&](const std::vector<uint16_t>& h, uint16_t op, const std::string& got, const std::string&) {
      std::string s; for (uint16_t x : h) s += std::string(g_ops3[x].name) + " ; "; s += g_ops3[op].name;
      std::string cls = got.substr(4, got.find(' ') == std::string::npos ? std::string::npos : got.find(' ') - 4);
      violation("c13:" + cls, fmt("{\"start_millis\":%lu,\"history\":%s,\"result\":%s}", start, jstr(s).c_str(), jstr(got).c_str()));
    };
    auto before = [](const std::vector<uint16_t>&, uint16_t) {};
    McStats st = explore<W, Cfg3, Op3>(cfg, g_ops3, depth, expected, mismatch, before);
    states += st.states; trans += st.transitions; exec += st.executions;
    sample(fmt("{\"p3_start\":%lu,\"states\":%llu,\"transitions\":%llu,\"depth\":%d}", start, (unsigned long long)st.states, (unsigned long long)st.transitions, depth));
  }
  c.add("p3_states", states); c.add("p3_transitions", trans); c.add("p3_executions", exec);
}

// ---- P4: the very first setting of a never-set clock, exhaustively over (T, m0) where T is a value the
// unset clock's own fields could alias: sentinel+1..sentinel+70 (what the catch-up arithmetic would yield from the
// initial mEpochSeconds and any 16-bit millisecond phase) and 0..70; m0 = every millisecond of one 16-bit period, from
// three 64-bit bases. After the set, polls at +1, +501, +1000, +1999 ms must read T + floor((m - m0)/1000).
static void p4(const Args& a, Counters& c) {
  if (a.shard != 3 % a.nshards) return;
  static const unsigned long bases[] = {0UL, 0xFFFF0000UL, 0x100000000UL + 65536UL * 7};
  static const uint32_t gaps[] = {1, 500, 499, 999};
  uint64_t n = 0, polls = 0; int reported = 0;
  for (unsigned long base : bases) for (unsigned long lo = 0; lo < 65536; lo++) {
    unsigned long m0 = base + lo;
    for (int fam = 0; fam < 2; fam++) for (int j = (fam == 0 ? 1 : 0); j <= 70; j++) {
      int64_t T = fam == 0 ? (int64_t)INT32_MIN + j : (int64_t)j;
      TClock clk; g_ms = m0;
      if (clk.isInit() || clk.getNow() != Clock::kInvalidSeconds) { if (reported++ < 3) violation("c13:unset-clock-not-invalid", fmt("{\"millis\":%lu}", m0)); }
      clk.setNow((acetime_t)T); n++;
      unsigned long m = m0;
      for (uint32_t g : gaps) {
        m += g; g_ms = m; int64_t got = clk.getNow(); polls++;
        int64_t want = T + (int64_t)((m - m0) / 1000);
        if (got != want || !clk.isInit() || clk.getLastSyncTime() != (acetime_t)T) {
          if (reported++ < 3) violation("c13:first-set-reading-wrong", fmt("{\"m0\":%lu,\"T_minus_sentinel\":%lld,\"poll_at_m0_plus\":%lu,\"got_minus_T\":%lld,\"want_minus_T\":%lld}", m0, (long long)(T - (int64_t)INT32_MIN), m - m0, (long long)(got - T), (long long)(want - T)));
          break;
        }
      }
    }
  }
  c.add("p4_first_settings", n); c.add("p4_polls", polls);
  sample(fmt("{\"p4\":\"3 bases x 65536 phases x 141 values next to the sentinel and to 0, 4 polls each\"}"));
}

int main(int argc, char** argv) {
  Args a = parse_args(argc, argv);
  Counters c;
  p1(a, c); p2(a, c); p3(a, c); p4(a, c);
  done(c);
  return 0;
}
