// C08 / C09(part): explicit-state exploration of query histories over the real
// cache/binding automata: own processor, processor shared by several TimeZone
// values, zone managers with 1..4 slots. Oracle: the same query on a freshly
// constructed TimeZone with its own processor.
#include "acetime_all.h"
#include "verif.h"
#include "civil.h"
#include "dbtraits.h"
#include "friends.h"
#include "mc.h"
#include <algorithm>
#include "isolate.h"
using namespace ace_time;
using namespace verif;

enum { OP_UTC, OP_DELTA, OP_ABBREV, OP_ODT, OP_PRINT, OP_PRINTSHORT, OP_N };
static const char* OPN[] = {"getUtcOffset", "getDeltaOffset", "getAbbrev", "getOffsetDateTime", "printTo", "printShortTo"};
struct Arg { std::string name; int64_t epoch; int16_t y; uint8_t mo, d, h, mi, s; bool sentinel; };
struct Op { uint8_t tz, opc; uint16_t arg; };
static std::vector<Arg> g_args;
static bool g_hostile = false;
static std::string g_pid = "c08";

static Arg year_arg(int y) {
  Arg a; a.y = y; a.mo = (y % 2) ? 1 : 7; a.d = 15; a.h = 12; a.mi = 30; a.s = 0; a.sentinel = false;
  a.epoch = civil::epoch2000_from_fields(y, a.mo, a.d, a.h, a.mi, a.s); a.name = fmt("y%d", y); return a;
}
static Arg edge_arg(int y, bool jan1) {
  Arg a; a.y = y; a.mo = jan1 ? 1 : 12; a.d = jan1 ? 1 : 31; a.h = jan1 ? 0 : 23; a.mi = 30; a.s = 0; a.sentinel = false;
  a.epoch = civil::epoch2000_from_fields(y, a.mo, a.d, a.h, a.mi, a.s); a.name = fmt("y%d%s", y, jan1 ? "jan1" : "dec31"); return a;
}
// the edges of the extended processor's 14-month window (Dec 1 of the previous year .. Feb 1 of the next): 00:30 UTC on
// Dec 1 and 23:30 UTC on Jan 31, i.e. instants a neighbouring year's cache may or may not cover depending on the zone's offset
static Arg window_arg(int y, bool dec1) {
  Arg a; a.y = y; a.mo = dec1 ? 12 : 1; a.d = dec1 ? 1 : 31; a.h = dec1 ? 0 : 23; a.mi = 30; a.s = 0; a.sentinel = false;
  a.epoch = civil::epoch2000_from_fields(y, a.mo, a.d, a.h, a.mi, a.s); a.name = fmt("y%d%s", y, dec1 ? "dec1" : "jan31"); return a;
}
static Arg raw_arg(const char* nm, int64_t epoch, int y, int mo, int d, int h, int mi, int s) {
  Arg a; a.name = nm; a.epoch = epoch; a.y = y; a.mo = mo; a.d = d; a.h = h; a.mi = mi; a.s = s; a.sentinel = false; return a;
}
static Arg sentinel_arg() { Arg a = raw_arg("sentinel", (int64_t)INT32_MIN, 0, 0, 0, 255, 255, 255); a.sentinel = true; return a; }

static std::string observe(const TimeZone& tz, uint8_t opc, const Arg& a) {
  switch (opc) {
    case OP_UTC: { TimeOffset o = tz.getUtcOffset((acetime_t)a.epoch); return o.isError() ? "o:ERR" : fmt("o:%d", o.toMinutes()); }
    case OP_DELTA: { TimeOffset o = tz.getDeltaOffset((acetime_t)a.epoch); return o.isError() ? "d:ERR" : fmt("d:%d", o.toMinutes()); }
    case OP_ABBREV: { const char* s = tz.getAbbrev((acetime_t)a.epoch); return std::string("a:") + (s ? s : "(null)"); }
    case OP_ODT: {
      LocalDateTime ldt = a.sentinel ? LocalDateTime::forError() : LocalDateTime::forComponents(a.y, a.mo, a.d, a.h, a.mi, a.s);
      OffsetDateTime o = tz.getOffsetDateTime(ldt);
      if (o.isError()) return "odt:ERR";
      return fmt("odt:%d-%d-%dT%d:%d:%d%+d", o.year(), o.month(), o.day(), o.hour(), o.minute(), o.second(), o.timeOffset().toMinutes());
    }
    case OP_PRINT: { CapturePrint p; tz.printTo(p); return "p:" + p.s; }
    case OP_PRINTSHORT: { CapturePrint p; tz.printShortTo(p); return "ps:" + p.s; }
  }
  return "?";
}

template <class Db> struct MgrBase {
  virtual ~MgrBase() {}
  virtual TimeZone create(int path, const typename Db::Info* z, int idx) = 0;
  virtual std::string key() const = 0;
};
template <class Db, int N> struct MgrOf;
template <int N> struct MgrOf<ExtDb, N> { typedef ExtendedZoneManager<N> T; };
template <int N> struct MgrOf<BasicDb, N> { typedef BasicZoneManager<N> T; };
template <class Db, int N> struct MgrN : MgrBase<Db> {
  typename MgrOf<Db, N>::T m;
  MgrN(uint16_t n, const typename Db::Info* const* reg) : m(n, reg) {}
  TimeZone create(int path, const typename Db::Info* z, int idx) override {
    switch (path & 3) {
      case 0: return m.createForZoneInfo(z);
      case 1: return m.createForZoneName(Db::name(z));
      case 2: return m.createForZoneId(Db::id(z));
      default: return m.createForZoneIndex(idx);
    }
  }
  std::string key() const override {
    const auto& c = m.verifProcessorCache();
    std::string k = fmt("M%d@%d:", N, c.verifCurrentIndex());
    for (int i = 0; i < N; i++) k += proc_key(c.verifProcessor(i));
    return k;
  }
};

enum { K_OWN, K_SHARED, K_MANAGED };
template <class Db> struct Cfg { int kind; std::vector<const typename Db::Info*> zones; int nslots; };

template <class Db> struct World {
  const Cfg<Db>& cfg;
  typename Db::Processor proc;      // own / shared
  std::vector<TimeZone> tz;
  MgrBase<Db>* mgr = nullptr;
  std::vector<const typename Db::Info*> reg;
  int counter = 0;
  World(const Cfg<Db>& c) : cfg(c) {
    if (c.kind == K_MANAGED) {
      reg = c.zones;
      std::sort(reg.begin(), reg.end(), [](const typename Db::Info* a, const typename Db::Info* b) { return strcmp(Db::name(a), Db::name(b)) < 0; });
      switch (c.nslots) {
        case 1: mgr = new MgrN<Db, 1>(reg.size(), reg.data()); break;
        case 2: mgr = new MgrN<Db, 2>(reg.size(), reg.data()); break;
        case 3: mgr = new MgrN<Db, 3>(reg.size(), reg.data()); break;
        default: mgr = new MgrN<Db, 4>(reg.size(), reg.data()); break;
      }
    } else {
      for (auto z : c.zones) tz.push_back(TimeZone::forZoneInfo(z, &proc));
    }
  }
  ~World() { delete mgr; }
  std::string apply(const Op& op) {
    if (cfg.kind == K_MANAGED) {
      const typename Db::Info* z = cfg.zones[op.tz];
      int idx = 0; for (size_t i = 0; i < reg.size(); i++) if (reg[i] == z) idx = i;
      TimeZone t = mgr->create(counter++, z, idx);
      return observe(t, op.opc, g_args[op.arg]);
    }
    return observe(tz[op.tz], op.opc, g_args[op.arg]);
  }
  std::string key() const { return cfg.kind == K_MANAGED ? mgr->key() : proc_key(proc); }
};

template <class Db> std::string describe(const Cfg<Db>& cfg, const Op& op) {
  return fmt("%s.%s(%s)", Db::name(cfg.zones[op.tz]), OPN[op.opc], g_args[op.arg].name.c_str());
}

template <class Db>
void explore_cfg(const Cfg<Db>& cfg, const std::vector<Op>& alphabet, int depth, const char* kname, Counters& c) {
  std::map<std::string, std::string> memo;
  auto expected = [&](const Op& op) -> std::string {
    std::string mk = fmt("%p/%d/%d", cfg.zones[op.tz], op.opc, op.arg);
    auto it = memo.find(mk); if (it != memo.end()) return it->second;
    typename Db::Processor fresh; TimeZone t = TimeZone::forZoneInfo(cfg.zones[op.tz], &fresh);
    iso_note(fmt("fresh object: %s", describe(cfg, op).c_str()));
    std::string r = observe(t, op.opc, g_args[op.arg]);
    // C09: arguments outside the supported range must produce the documented error value
    const Arg& a = g_args[op.arg];
    bool out = a.sentinel || a.y < 1999 || a.y > 2050;
    if (out && op.opc <= OP_ODT) {
      const char* want = op.opc == OP_UTC ? "o:ERR" : op.opc == OP_DELTA ? "d:ERR" : op.opc == OP_ABBREV ? "a:" : "odt:ERR";
      if (r != want) violation(g_pid + ":" + Db::tag() + ":out-of-range-not-error:" + OPN[op.opc], fmt("{\"call\":%s,\"got\":%s,\"want\":\"%s\"}", jstr(describe(cfg, op)).c_str(), jstr(r).c_str(), want));
    }
    memo[mk] = r; return r;
  };
  auto hist_text = [&](const std::vector<uint16_t>& h, uint16_t a) {
    std::string s; for (uint16_t x : h) s += describe(cfg, alphabet[x]) + " ; "; return s + describe(cfg, alphabet[a]);
  };
  // per-step watchdog: a single library call that does not return within 60 s is a hang (the world as a whole may take long)
  auto before = [&](const std::vector<uint16_t>& h, uint16_t a) { alarm(60); iso_note(fmt("world=%s/%s slots=%d history: %s", Db::tag(), kname, cfg.nslots, hist_text(h, a).c_str())); };
  auto mismatch = [&](const std::vector<uint16_t>& h, uint16_t a, const std::string& got, const std::string& want) {
    violation(g_pid + ":" + Db::tag() + ":" + kname + ":history-dependent:" + OPN[alphabet[a].opc],
        fmt("{\"world\":\"%s\",\"slots\":%d,\"history\":%s,\"got\":%s,\"fresh_object\":%s}", kname, cfg.nslots, jstr(hist_text(h, a)).c_str(), jstr(got).c_str(), jstr(want).c_str()));
  };
  McStats st = explore<World<Db>, Cfg<Db>, Op>(cfg, alphabet, depth, expected, mismatch, before, 250000);
  c.add("states", st.states); c.add("transitions", st.transitions); c.add("executions", st.executions); c.add("worlds");
  c.add(st.fixpoint ? "worlds_explored_to_fixpoint" : "worlds_cut_at_depth_bound");
  c.add("distinct_observations", st.distinct_obs);
  if (st.max_depth > c.c["max_depth"]) c.c["max_depth"] = st.max_depth;
  static int ns = 0;
  if (ns++ % 97 == 0 && !alphabet.empty()) sample(fmt("{\"world\":\"%s/%s\",\"slots\":%d,\"states\":%llu,\"transitions\":%llu,\"fixpoint\":%d,\"example_history\":%s}", Db::tag(), kname, cfg.nslots,
      (unsigned long long)st.states, (unsigned long long)st.transitions, (int)st.fixpoint, jstr(describe(cfg, alphabet[alphabet.size() / 2]) + " ; " + describe(cfg, alphabet[0])).c_str()));
}

template <class Db>
void stateless_cfg(const Cfg<Db>& cfg, const std::vector<Op>& alphabet, int depth, const char* kname, Counters& c) {
  std::map<std::string, std::string> memo;
  auto expected = [&](const Op& op) -> std::string {
    std::string mk = fmt("%p/%d/%d", cfg.zones[op.tz], op.opc, op.arg);
    auto it = memo.find(mk); if (it != memo.end()) return it->second;
    typename Db::Processor fresh; TimeZone t = TimeZone::forZoneInfo(cfg.zones[op.tz], &fresh);
    std::string r = observe(t, op.opc, g_args[op.arg]); memo[mk] = r; return r;
  };
  auto hist_text = [&](const std::vector<uint16_t>& h, uint16_t a) { std::string s; for (uint16_t x : h) s += describe(cfg, alphabet[x]) + " ; "; return s + describe(cfg, alphabet[a]); };
  auto before = [&](const std::vector<uint16_t>& h, uint16_t a) { alarm(60); iso_note(fmt("world=%s/%s slots=%d (stateless) history: %s", Db::tag(), kname, cfg.nslots, hist_text(h, a).c_str())); };
  auto mismatch = [&](const std::vector<uint16_t>& h, uint16_t a, const std::string& got, const std::string& want) {
    violation(g_pid + ":" + Db::tag() + ":" + kname + ":history-dependent:" + OPN[alphabet[a].opc],
        fmt("{\"world\":\"%s\",\"slots\":%d,\"exploration\":\"stateless\",\"history\":%s,\"got\":%s,\"fresh_object\":%s}", kname, cfg.nslots, jstr(hist_text(h, a)).c_str(), jstr(got).c_str(), jstr(want).c_str()));
  };
  McStats st = explore_stateless<World<Db>, Cfg<Db>, Op>(cfg, alphabet, depth, expected, mismatch, before);
  c.add("stateless_histories", st.states); c.add("executions", st.executions); c.add("stateless_transitions", st.transitions);
}

static std::vector<uint16_t> arg_idx(const std::vector<std::string>& names) {
  std::vector<uint16_t> r; for (auto& n : names) for (size_t i = 0; i < g_args.size(); i++) if (g_args[i].name == n) r.push_back(i); return r;
}

template <class Db> void run_db(const Args& a, Counters& c, int& item) {
  typedef typename Db::Info ZI;
  struct Job { Cfg<Db> cfg; std::vector<Op> alpha; int depth; const char* kname; std::vector<Op> salpha; int sdepth = 0; };
  std::vector<Job> jobs;
  // ---- W1: every zone, own processor, all year classes
  std::vector<std::string> all_names; for (auto& g : g_args) all_names.push_back(g.name);
  std::vector<uint16_t> all_args = arg_idx(all_names);
  std::string only = a.get("zone");
  for (uint16_t zi = 0; zi < Db::size(); zi++) {
    if (!only.empty() && only != Db::name(Db::info(zi))) continue;
    if ((long)((zi + a.seed) % a.getl("w1stride", 1)) != 0) continue;
    Job j; j.cfg.kind = K_OWN; j.cfg.zones = {Db::info(zi)}; j.cfg.nslots = 0; j.depth = 3; j.kname = "own";
    for (uint8_t o = 0; o < OP_N; o++) for (uint16_t ai : all_args) {
      if ((o == OP_PRINT || o == OP_PRINTSHORT) && ai != all_args[0]) continue;
      j.alpha.push_back({0, o, ai});
    }
    jobs.push_back(j);
  }
  // ---- W2: processor shared by 2..3 TimeZone values (forced-collision zone sets)
  std::vector<const char*> coll = {"America/Los_Angeles", "Europe/London", "Asia/Kolkata", "Australia/Sydney", "Antarctica/Troll", "America/Caracas", "Etc/UTC", "Pacific/Apia"};
  std::vector<const ZI*> cz; for (auto n : coll) { const ZI* z = find_zone<Db>(n); if (z) cz.push_back(z); }
  // seed-rotated extra zones
  for (int k = 0; k < 2; k++) cz.push_back(Db::info((a.seed * 31 + k * 101 + 7) % Db::size()));
  std::vector<std::string> small = g_hostile
      ? std::vector<std::string>{"y2005", "y2006", "y1997", "y2052", "sentinel", "y1999", "y2050", "int32min+1", "int32max", "y1872", "y2127", "badcomponents", "y2006jan1", "y2005dec31", "ymin-jan1", "ymax-dec31"}
      : std::vector<std::string>{"y2005", "y2006", "y1997", "y2052", "sentinel", "y1999", "y2050", "y2006jan1", "y2005dec31", "y2050jan1", "y1999dec31", "ymin-jan1", "ymax-dec31"};
  std::vector<uint16_t> sa = arg_idx(small);
  auto mk_alpha = [&](int ntz, const std::vector<uint16_t>& args) {
    std::vector<Op> al;
    for (uint8_t t = 0; t < ntz; t++) for (uint8_t o = 0; o < OP_N; o++) for (uint16_t ai : args) {
      if ((o == OP_PRINT || o == OP_PRINTSHORT) && ai != args[0]) continue;
      al.push_back({t, o, ai});
    }
    return al;
  };
  std::vector<uint16_t> st_args = arg_idx({"y2005", "y2006", "y1997", "y2006jan1"});
  auto mk_salpha = [&](int ntz) {
    std::vector<Op> al;
    for (uint8_t t = 0; t < ntz; t++) for (uint8_t o : {(uint8_t)OP_UTC, (uint8_t)OP_ABBREV, (uint8_t)OP_ODT, (uint8_t)OP_PRINT}) for (uint16_t ai : st_args) { if (o == OP_PRINT && ai != st_args[0]) continue; al.push_back({t, o, ai}); }
    return al;
  };
  if (only.empty()) {
    for (size_t i = 0; i < cz.size(); i++) for (size_t k = i + 1; k < cz.size(); k++) {
      if (cz[i] == cz[k]) continue;
      Job j; j.cfg.kind = K_SHARED; j.cfg.zones = {cz[i], cz[k]}; j.cfg.nslots = 0; j.depth = a.thorough ? 5 : 4; j.kname = "shared2"; j.alpha = mk_alpha(2, sa); j.salpha = mk_salpha(2); j.sdepth = a.getl("sdepth", a.thorough ? 4 : 3); jobs.push_back(j);
    }
    for (size_t i = 0; i + 2 < cz.size(); i++) {
      if (cz[i] == cz[i+1] || cz[i+1] == cz[i+2] || cz[i] == cz[i+2]) continue;
      Job j; j.cfg.kind = K_SHARED; j.cfg.zones = {cz[i], cz[i + 1], cz[i + 2]}; j.cfg.nslots = 0; j.depth = a.thorough ? 5 : 4; j.kname = "shared3"; j.alpha = mk_alpha(3, sa); j.salpha = mk_salpha(3); j.sdepth = a.getl("sdepth", 3); jobs.push_back(j);
    }
    // ---- W3: managers with N slots holding N+1 / N+2 zones
    std::vector<uint16_t> ma = arg_idx(g_hostile ? std::vector<std::string>{"y2005", "y2006", "y1997", "sentinel", "int32max", "ymin-jan1"} : std::vector<std::string>{"y2005", "y2006", "y1997", "sentinel", "y2006jan1", "ymin-jan1"});
    std::vector<uint16_t> ma2 = arg_idx({"y2005", "y1997"});
    int maxN = a.thorough ? 4 : 3;
    for (int N = 1; N <= maxN; N++) for (int extra = 1; extra <= 2; extra++) {
      if ((int)cz.size() < N + extra) continue;
      Job j; j.cfg.kind = K_MANAGED; j.cfg.nslots = N; j.kname = "managed";
      for (int i = 0; i < N + extra; i++) j.cfg.zones.push_back(cz[(i * 3 + a.seed) % cz.size()]);
      std::set<const ZI*> uniq(j.cfg.zones.begin(), j.cfg.zones.end());
      if ((int)uniq.size() != N + extra) { j.cfg.zones.assign(cz.begin(), cz.begin() + N + extra); }
      j.depth = a.getl("mdepth", a.thorough ? 16 : (N <= 2 ? 10 : 7));
      j.alpha = mk_alpha(N + extra, N >= 3 ? ma2 : ma);
      j.salpha = mk_salpha(N + extra); j.sdepth = a.getl("sdepth", (a.thorough && N + extra <= 3) ? 4 : 3);
      jobs.push_back(j);
    }
  }
  // ---- W3b: managers holding two zones whose 32-bit ids agree in part (low/high 16 bits, low/high byte): a cache that
  //      compares anything less than the whole identity of a zone confuses exactly such pairs
  if (only.empty()) {
    std::vector<uint16_t> ma3 = arg_idx({"y2005", "y2006", "y1997"});
    for (uint32_t mask : {0x0000FFFFu, 0xFFFF0000u, 0x000000FFu, 0xFF000000u, 0x00FFFF00u}) {
      int found = 0;
      for (uint16_t i = 0; i < Db::size() && found < 2; i++) for (uint16_t k = i + 1; k < Db::size() && found < 2; k++) {
        if ((Db::id(Db::info(i)) & mask) != (Db::id(Db::info(k)) & mask)) continue;
        Job j; j.cfg.kind = K_MANAGED; j.cfg.nslots = 2; j.kname = "managed";
        j.cfg.zones = {Db::info(i), Db::info(k), cz[0] == Db::info(i) || cz[0] == Db::info(k) ? cz[1] : cz[0]};
        j.depth = a.getl("mdepth", 8); j.alpha = mk_alpha(3, ma3); j.salpha = mk_salpha(3); j.sdepth = a.getl("sdepth", 3);
        jobs.push_back(j); found++;
      }
    }
  }
  // ---- W2c: one processor shared by two zones that use the SAME ZonePolicy (rule records shared between zones): for every
  //      year, a query on zone A and then on zone B in that year, compared with B on a fresh processor. State kept per rule or
  //      per year without the zone in its key shows up exactly here.
  if (only.empty() && !g_hostile) {
    std::map<const void*, std::vector<const ZI*>> users;
    for (uint16_t zi = 0; zi < Db::size(); zi++) {
      const ZI* info = Db::info(zi);
      for (uint8_t e = 0; e < info->numEras; e++) { const void* pol = info->eras[e].zonePolicy; if (pol) { auto& v = users[pol]; if (v.empty() || v.back() != info) v.push_back(info); } }
    }
    std::vector<uint16_t> yargs; for (uint16_t i = 0; i < g_args.size(); i++) if (g_args[i].name.size() == 5 && g_args[i].y >= 2000 && g_args[i].y <= 2049) yargs.push_back(i);   // "yNNNN" mid-year instants
    uint64_t pairs = 0, steps = 0; long pidx = 0;
    for (auto& kv : users) {
      std::vector<const ZI*> us = kv.second; if (us.size() < 2) continue;
      std::vector<const ZI*> bs = us; std::stable_sort(bs.begin(), bs.end(), [](const ZI* x, const ZI* y) { return x->numEras > y->numEras; }); if (bs.size() > 4) bs.resize(4);
      for (const ZI* B : bs) for (size_t ai = 0; ai < us.size() && ai < 40; ai++) {
        const ZI* A = us[ai]; if (A == B) continue;
        if ((pidx++ % a.nshards) != a.shard) continue;
        pairs++;
        for (uint16_t ya : yargs) for (uint8_t opc : {(uint8_t)OP_UTC, (uint8_t)OP_ABBREV}) {
          typename Db::Processor shared; TimeZone ta = TimeZone::forZoneInfo(A, &shared), tb = TimeZone::forZoneInfo(B, &shared);
          alarm(60); iso_note(fmt("policy-sharing pair %s then %s arg %s", Db::name(A), Db::name(B), g_args[ya].name.c_str()));
          (void)observe(ta, OP_UTC, g_args[ya]);
          std::string got = observe(tb, opc, g_args[ya]);
          typename Db::Processor fresh; TimeZone tf = TimeZone::forZoneInfo(B, &fresh);
          std::string want = observe(tf, opc, g_args[ya]);
          steps++;
          // the complete cache content (every transition of the year) must equal the fresh processor's, not only this one answer
          if (got == want && proc_key(shared) != proc_key(fresh)) { got = "cache:" + proc_key(shared); want = "cache:" + proc_key(fresh); }
          if (got != want) violation(g_pid + ":" + Db::tag() + ":shared-policy-pair:history-dependent:" + OPN[opc],
              fmt("{\"world\":\"two zones using one ZonePolicy on one processor\",\"history\":\"%s.getUtcOffset(%s) ; %s.%s(%s)\",\"got\":%s,\"fresh_object\":%s}", Db::name(A), g_args[ya].name.c_str(), Db::name(B), OPN[opc], g_args[ya].name.c_str(), jstr(got).c_str(), jstr(want).c_str()));
        }
      }
    }
    alarm(0);
    c.add("policy_sharing_pairs", pairs); c.add("executions", steps); c.add("transitions", steps);
  }
  for (auto& j : jobs) {
    if ((item++ % a.nshards) != a.shard) continue;
    Counters cc;
    run_isolated(1, 86400, [&](long) { g_viol_per_key.clear(); explore_cfg<Db>(j.cfg, j.alpha, j.depth, j.kname, cc); if (j.sdepth) stateless_cfg<Db>(j.cfg, j.salpha, j.sdepth, j.kname, cc); cc.emit(); emit_violation_totals(); },
      [&](long, int status) {
        const char* how = WIFSIGNALED(status) && WTERMSIG(status) == SIGALRM ? "hang" : "crash";
        violation(g_pid + ":" + Db::tag() + ":" + j.kname + ":" + how, fmt("{\"wait_status\":%d,\"last_step\":%s}", status, jstr(iso_last_note()).c_str()));
        c.add("worlds_aborted_by_crash");
      });
  }
}

int main(int argc, char** argv) {
  Args a = parse_args(argc, argv);
  g_hostile = a.get("hostile") == "1";
  g_pid = a.get("pid", "c08");
  for (int y = 1998; y <= 2051; y++) g_args.push_back(year_arg(y));
  // year-boundary instants: the basic processor serves Jan 1 (UTC) from the previous year's cache
  for (int y = 1999; y <= 2050; y++) { g_args.push_back(edge_arg(y, true)); g_args.push_back(edge_arg(y, false)); }
  for (int y = 1999; y <= 2050; y++) { g_args.push_back(window_arg(y, true)); g_args.push_back(window_arg(y, false)); }
  g_args.push_back(year_arg(1997)); g_args.push_back(year_arg(2052));
  g_args.push_back(sentinel_arg());
  // the smallest valid local date: the basic processor's "Jan 1 uses the previous year" step turns its year into the invalid-year sentinel
  g_args.push_back(raw_arg("ymin-jan1", g_args[0].epoch, 1873, 1, 1, 0, 30, 0));
  g_args.push_back(raw_arg("ymax-dec31", g_args[0].epoch, 2127, 12, 31, 23, 30, 0));
  if (g_hostile) {
    g_args.push_back(raw_arg("int32min+1", (int64_t)INT32_MIN + 1, 1931, 12, 13, 20, 45, 53));
    g_args.push_back(raw_arg("int32max", INT32_MAX, 2068, 1, 19, 3, 14, 7));
    g_args.push_back(raw_arg("y1872", civil::epoch2000_from_fields(1932, 1, 1, 0, 0, 0), 1872, 6, 1, 0, 0, 0));
    g_args.push_back(raw_arg("y2127", civil::epoch2000_from_fields(2067, 12, 31, 23, 59, 59), 2127, 12, 31, 23, 59, 59));
    g_args.push_back(raw_arg("badcomponents", civil::epoch2000_from_fields(2005, 1, 1, 0, 0, 0), 2005, 13, 32, 25, 60, 60));
  }
  Counters c; int item = 0;
  run_db<ExtDb>(a, c, item);
  run_db<BasicDb>(a, c, item);
  done(c);
  return 0;
}
