// C16: TimeZone is a faithful value: save/restore through TimeZoneData, manual offsets, equality.
#include <algorithm>
#include "acetime_all.h"
#include "verif.h"
#include "civil.h"
#include "dbtraits.h"
using namespace ace_time;
using namespace verif;

static std::vector<acetime_t> g_grid;
static std::string answers(const TimeZone& tz) {
  std::string s;
  for (acetime_t t : g_grid) { TimeOffset o = tz.getUtcOffset(t), d = tz.getDeltaOffset(t); const char* ab = tz.getAbbrev(t); s += fmt("%d/%d/%s;", o.toMinutes(), d.toMinutes(), ab ? ab : "(null)"); }
  CapturePrint p; tz.printTo(p); return s + p.s;
}

template <class Db, class OtherDb, class Mgr, class OtherMgr, class SmallMgr>
void zones(const Args& a, Counters& c, Mgr& full, OtherMgr& other, const char* tag) {
  typedef typename Db::Info ZI;
  for (int zi = a.shard; zi < Db::size(); zi += a.nshards) {
    const ZI* info = Db::info(zi); std::string nm = Db::name(info);
    journal("zone", zi);
    snprintf(g_journal, sizeof g_journal, "%s %s", tag, nm.c_str());
    typename Db::Processor own;
    TimeZone ref = full.createForZoneIndex(zi);
    std::string refAns = answers(ref);
    TimeZone made[4] = { TimeZone::forZoneInfo(info, &own), full.createForZoneIndex(zi), full.createForZoneName(nm.c_str()), full.createForZoneId(Db::id(info)) };
    static const char* PATH[] = {"direct", "byIndex", "byName", "byId"};
    // a registry that lacks this zone (its two neighbours only)
    const ZI* smallReg[2] = { Db::info((zi + 1) % Db::size()), Db::info((zi + 2) % Db::size()) };
    SmallMgr lacking(2, smallReg);
    for (int p = 0; p < 4; p++) {
      auto bad = [&](const char* w, const std::string& x) { violation(std::string("c16:") + tag + ":" + w, fmt("{\"zone\":\"%s\",\"created\":\"%s\",%s}", nm.c_str(), PATH[p], x.c_str())); };
      if (made[p].isError()) { bad("creation-error", "\"x\":0"); continue; }
      if (made[p].getZoneId() != Db::id(info)) bad("getZoneId", fmt("\"got\":%u", made[p].getZoneId()));
      TimeZoneData d = made[p].toTimeZoneData();
      if (d.type != TimeZoneData::kTypeZoneId || d.zoneId != Db::id(info)) bad("toTimeZoneData", fmt("\"type\":%d,\"zoneId\":%u", d.type, d.zoneId));
      if (!(d == TimeZoneData(Db::id(info))) || d != TimeZoneData(Db::id(info))) bad("TimeZoneData-equality", "\"x\":0");
      TimeZone r = full.createForTimeZoneData(d);
      if (r.isError()) bad("restore-error", "\"x\":0");
      else {
        if (!(r == ref) || r != ref) bad("restored-not-equal-to-direct-creation", fmt("\"restoredType\":%d,\"refType\":%d", r.getType(), ref.getType()));
        std::string ans = answers(r);
        if (ans != refAns) bad("restored-answers-differ", "\"got\":" + jstr(ans.substr(0, 80)));
        if (p == 0 && answers(made[0]) != refAns) bad("direct-vs-managed-answers-differ", "\"x\":0");
      }
      TimeZone m = lacking.createForTimeZoneData(d);
      if (!m.isError()) bad("restore-from-registry-without-zone-not-error", "\"x\":0");
      // other database's manager: equal to what that manager creates for this id (error if absent)
      TimeZone o1 = other.createForTimeZoneData(d), o2 = other.createForZoneId(Db::id(info));
      const typename OtherDb::Info* oi = find_zone<OtherDb>(nm.c_str());
      if ((oi == nullptr) != o1.isError() || !(o1 == o2)) bad("restore-in-other-database", fmt("\"present\":%d,\"isError\":%d", oi != nullptr, o1.isError()));
      c.add("zone_restores", 3);
    }
    // save / evict / restore histories on a 1-slot manager (every order of: save A, use B (evicts A), restore A, query)
    SmallMgr one(2, smallReg);   // registry {n1, n2}
    TimeZone A = one.createForZoneIndex(0), B = one.createForZoneIndex(1);
    std::string aFresh, bFresh; { SmallMgr f(2, smallReg); aFresh = answers(f.createForZoneIndex(0)); } { SmallMgr f(2, smallReg); bFresh = answers(f.createForZoneIndex(1)); }
    for (int order = 0; order < 6; order++) {
      SmallMgr h(2, smallReg);
      TimeZone ha = h.createForZoneIndex(0), hb = h.createForZoneIndex(1);
      TimeZoneData da = ha.toTimeZoneData();
      if (order & 1) answers(ha);
      if (order & 2) answers(hb);
      TimeZone ra = h.createForTimeZoneData(da);
      if (order & 4) answers(hb);
      if (answers(ra) != aFresh || !(ra == ha)) violation(std::string("c16:") + tag + ":restore-depends-on-cache-history", fmt("{\"zones\":[\"%s\",\"%s\"],\"order\":%d}", Db::name(smallReg[0]), Db::name(smallReg[1]), order));
      if (answers(hb) != bFresh) violation(std::string("c16:") + tag + ":answers-depend-on-cache-history", fmt("{\"order\":%d}", order));
      c.add("save_evict_restore_histories");
    }
    c.add("zones");
  }
}

static volatile long g_sink16 = 0;
// save / restore through managers whose registry holds the same zones in another order (by id ascending, by id
// descending, names reversed): "a zone manager whose registry contains the zone" does not promise name order
template <class Db, class Mgr> static void reorder_world(Counters& c, const char* flavour) {
  typedef typename Db::Info ZI;
  std::vector<const ZI*> base; for (int i = 0; i < Db::size(); i++) base.push_back(Db::info(i));
  for (int order = 0; order < 3; order++) {
    std::vector<const ZI*> reg = base;
    if (order == 0) std::sort(reg.begin(), reg.end(), [](const ZI* x, const ZI* y) { return Db::id(x) < Db::id(y); });
    else if (order == 1) std::sort(reg.begin(), reg.end(), [](const ZI* x, const ZI* y) { return Db::id(x) > Db::id(y); });
    else std::reverse(reg.begin(), reg.end());
    Mgr m((uint16_t)reg.size(), reg.data());
    for (size_t i = 0; i < reg.size(); i++) {
      journal("reordered-registry", order, (int)i);
      TimeZone direct = m.createForZoneInfo(reg[i]);
      TimeZoneData d = direct.toTimeZoneData();
      TimeZone r = m.createForTimeZoneData(d), byid = m.createForZoneId(Db::id(reg[i])), byname = m.createForZoneName(Db::name(reg[i]));
      if (r.isError() || !(r == direct) || r.getZoneId() != Db::id(reg[i]) || byid.isError() || !(byid == direct) || byname.isError() || !(byname == direct)
          || m.indexForZoneId(Db::id(reg[i])) != i || m.indexForZoneName(Db::name(reg[i])) != i)
        violation(std::string("c16:") + flavour + ":restore-through-reordered-registry", fmt("{\"order\":\"%s\",\"index\":%zu,\"zone\":\"%s\",\"restored_is_error\":%d,\"by_id_is_error\":%d,\"by_name_is_error\":%d}",
                  order == 0 ? "id-ascending" : order == 1 ? "id-descending" : "names-reversed", i, Db::name(reg[i]), r.isError(), byid.isError(), byname.isError()));
      c.add("reordered_registry_restores");
    }
  }
}

int main(int argc, char** argv) {
  Args a = parse_args(argc, argv);
  Counters c;
  for (int y = 2000; y < 2048; y += 4) { g_grid.push_back((acetime_t)civil::epoch2000_from_fields(y, 1, 20, 3, 4, 5)); g_grid.push_back((acetime_t)civil::epoch2000_from_fields(y + 1, 7, 20, 21, 4, 5)); }
  ExtendedZoneManager<1> xm(zonedbx::kZoneRegistrySize, zonedbx::kZoneRegistry);
  BasicZoneManager<1> bm(zonedb::kZoneRegistrySize, zonedb::kZoneRegistry);
  zones<ExtDb, BasicDb, ExtendedZoneManager<1>, BasicZoneManager<1>, ExtendedZoneManager<1>>(a, c, xm, bm, "extended");
  zones<BasicDb, ExtDb, BasicZoneManager<1>, ExtendedZoneManager<1>, BasicZoneManager<1>>(a, c, bm, xm, "basic");
  if (a.shard == 0) {
    reorder_world<ExtDb, ExtendedZoneManager<1>>(c, "extended");
    reorder_world<BasicDb, BasicZoneManager<1>>(c, "basic");
    // ---- manual zones
    std::vector<int> stds; for (int m = -960; m <= 960; m += 15) stds.push_back(m); for (int m : {1, -1, 32767, -32767, 16000}) stds.push_back(m);
    for (int sm : stds) for (int dm = -60; dm <= 120; dm += 15) {
      journal("manual", sm, dm);
      if (sm + dm > 32767 || sm + dm <= -32768) continue;
      TimeZone tz = TimeZone::forTimeOffset(TimeOffset::forMinutes(sm), TimeOffset::forMinutes(dm));
      auto bad = [&](const char* w) { violation(std::string("c16:manual:") + w, fmt("{\"std\":%d,\"dst\":%d}", sm, dm)); };
      if (tz.getType() != TimeZone::kTypeManual || tz.isError()) bad("type");
      for (acetime_t t : {(acetime_t)0, g_grid[3], (acetime_t)INT32_MAX}) { if (tz.getUtcOffset(t).toMinutes() != sm + dm) bad("getUtcOffset-not-std+dst"); if (tz.getDeltaOffset(t).toMinutes() != dm) bad("getDeltaOffset"); }
      if (tz.getStdOffset().toMinutes() != sm || tz.getDstOffset().toMinutes() != dm) bad("getStd/DstOffset");
      if (tz.isUtc() != (sm == 0 && dm == 0) || tz.isDst() != (dm != 0)) bad("isUtc/isDst");
      TimeZoneData d = tz.toTimeZoneData();
      if (d.type != TimeZoneData::kTypeManual || d.stdOffsetMinutes != sm || d.dstOffsetMinutes != dm) bad("toTimeZoneData");
      for (ZoneManager* m : {(ZoneManager*)&xm, (ZoneManager*)&bm}) {
        TimeZone r = m->createForTimeZoneData(d);
        if (!(r == tz) || r.getStdOffset().toMinutes() != sm || r.getDstOffset().toMinutes() != dm || r.getUtcOffset(0).toMinutes() != sm + dm) bad("restore");
      }
      TimeZone other = TimeZone::forTimeOffset(TimeOffset::forMinutes(sm), TimeOffset::forMinutes(dm + 15));
      if (other == tz || !(other != tz)) bad("equality-ignores-dst-offset");
      TimeZone other2 = TimeZone::forTimeOffset(TimeOffset::forMinutes(sm == 32767 ? sm - 1 : sm + 1), TimeOffset::forMinutes(dm));
      if (other2 == tz) bad("equality-ignores-std-offset");
      // setters
      TimeZone s = TimeZone::forUtc(); s.setStdOffset(TimeOffset::forMinutes(sm)); s.setDstOffset(TimeOffset::forMinutes(dm)); if (!(s == tz)) bad("setters");
      c.add("manual_zones");
    }
    // ---- manual zones: equality over ALL pairs of the (std, dst) grid (equal exactly when both offsets are equal - pairs
    //      with the same total offset and the same DST flag but a different split are where a shortcut goes wrong)
    {
      std::vector<std::pair<int, int>> grid;
      for (int sm = -720; sm <= 840; sm += 15) for (int dm = -60; dm <= 120; dm += 15) grid.push_back({sm, dm});
      for (int sm : {1, -1, 32000, -32000}) for (int dm : {0, 1, 60}) grid.push_back({sm, dm});
      std::vector<TimeZone> mz; for (auto& g : grid) mz.push_back(TimeZone::forTimeOffset(TimeOffset::forMinutes(g.first), TimeOffset::forMinutes(g.second)));
      uint64_t same_total = 0;
      for (size_t i = 0; i < mz.size(); i++) for (size_t k = 0; k < mz.size(); k++) {
        bool want = grid[i] == grid[k];
        bool eq = mz[i] == mz[k], ne = mz[i] != mz[k];
        if (eq != want || ne == want) violation("c16:manual:equality-pair", fmt("{\"a\":[%d,%d],\"b\":[%d,%d],\"equal\":%d,\"not_equal\":%d}", grid[i].first, grid[i].second, grid[k].first, grid[k].second, eq, ne));
        TimeZoneData da = mz[i].toTimeZoneData(), db = mz[k].toTimeZoneData();
        if ((da == db) != want) violation("c16:manual:TimeZoneData-equality-pair", fmt("{\"a\":[%d,%d],\"b\":[%d,%d]}", grid[i].first, grid[i].second, grid[k].first, grid[k].second));
        if (!want && grid[i].first + grid[i].second == grid[k].first + grid[k].second) same_total++;
        c.add("manual_equality_pairs");
      }
      c.add("manual_pairs_same_total_offset_different_split", same_total);
    }
    // ---- manual zones whose (std, dst) pair has the bit pattern of a registered zone id (TimeZoneData keeps both in one
    //      union): restoring them through a manager that knows that zone must still give the manual zone
    {
      std::vector<uint32_t> ids;
      for (uint16_t i = 0; i < ExtDb::size(); i++) ids.push_back(ExtDb::id(ExtDb::info(i)));
      for (uint16_t i = 0; i < BasicDb::size(); i++) ids.push_back(BasicDb::id(BasicDb::info(i)));
      for (uint32_t id : ids) for (int swap = 0; swap < 2; swap++) {
        int16_t lo = (int16_t)(id & 0xFFFF), hi = (int16_t)(id >> 16);
        int sm = swap ? hi : lo, dm = swap ? lo : hi;
        if (sm == -32768 || dm == -32768 || sm + dm > 32767 || sm + dm <= -32768) continue;   // the error sentinel / out of int16
        TimeZone tz = TimeZone::forTimeOffset(TimeOffset::forMinutes(sm), TimeOffset::forMinutes(dm));
        TimeZoneData d = tz.toTimeZoneData();
        for (ZoneManager* m : {(ZoneManager*)&xm, (ZoneManager*)&bm}) {
          TimeZone r = m->createForTimeZoneData(d);
          if (r.getType() != TimeZone::kTypeManual || !(r == tz) || r.getStdOffset().toMinutes() != sm || r.getDstOffset().toMinutes() != dm || r.getUtcOffset(0).toMinutes() != sm + dm)
            violation("c16:manual:restore-of-id-aliasing-pair", fmt("{\"std\":%d,\"dst\":%d,\"aliased_zone_id\":\"0x%08x\",\"restored_type\":%d}", sm, dm, id, r.getType()));
          c.add("manual_id_aliasing_restores");
        }
      }
    }
    // ---- a zone handed to createForZoneInfo() that is NOT in the manager's registry must not become reachable by id
    {
      static const basic::ZoneInfo* const kSmallB[] = {&zonedb::kZoneAmerica_Los_Angeles, &zonedb::kZoneEurope_London};
      static const extended::ZoneInfo* const kSmallX[] = {&zonedbx::kZoneAmerica_Los_Angeles, &zonedbx::kZoneEurope_London};
      BasicZoneManager<2> sb(2, kSmallB); ExtendedZoneManager<2> sx(2, kSmallX);
      for (int round = 0; round < 2; round++) {
        TimeZone ob = sb.createForZoneInfo(&zonedb::kZoneAustralia_Darwin); g_sink16 += ob.getUtcOffset(0).toMinutes();
        TimeZone ox = sx.createForZoneInfo(&zonedbx::kZoneAmerica_Caracas); g_sink16 += ox.getUtcOffset(0).toMinutes();
        uint32_t idb = zonedb::kZoneAustralia_Darwin.zoneId, idx = zonedbx::kZoneAmerica_Caracas.zoneId;
        if (!sb.createForZoneId(idb).isError() || sb.indexForZoneId(idb) != ZoneManager::kInvalidIndex || !sb.createForTimeZoneData(TimeZoneData(idb)).isError() || !sb.createForZoneName("Australia/Darwin").isError())
          violation("c16:basic:zone-outside-registry-reachable-after-createForZoneInfo", fmt("{\"round\":%d}", round));
        if (!sx.createForZoneId(idx).isError() || sx.indexForZoneId(idx) != ZoneManager::kInvalidIndex || !sx.createForTimeZoneData(TimeZoneData(idx)).isError() || !sx.createForZoneName("America/Caracas").isError())
          violation("c16:extended:zone-outside-registry-reachable-after-createForZoneInfo", fmt("{\"round\":%d}", round));
        if (sb.createForZoneId(zonedb::kZoneEurope_London.zoneId).isError() || sx.createForZoneId(zonedbx::kZoneEurope_London.zoneId).isError()) violation("c16:small-registry-present-id-not-found", "{}");
        c.add("outside_registry_probes");
      }
    }
    // ---- error zone
    TimeZone e = TimeZone::forError(); TimeZoneData de = e.toTimeZoneData();
    if (de.type != TimeZoneData::kTypeError || !xm.createForTimeZoneData(de).isError() || !bm.createForTimeZoneData(de).isError()) violation("c16:error-zone-restore", "{}");
    if (!(de == TimeZoneData()) ) violation("c16:error-data-equality", "{}");
    if (!xm.createForTimeZoneData(TimeZoneData((uint32_t)0)).isError() || !xm.createForTimeZoneData(TimeZoneData((uint32_t)0xFFFFFFFF)).isError()) violation("c16:unknown-id-not-error", "{}");
    // ---- equality matrix
    struct V { TimeZone tz; int kind; const void* ident; int s, d; std::string label; };
    std::vector<V> vs;
    static BasicZoneProcessor bp1, bp2; static ExtendedZoneProcessor xp1, xp2;
    static BasicZoneManager<2> bm2(zonedb::kZoneRegistrySize, zonedb::kZoneRegistry); static ExtendedZoneManager<2> xm2(zonedbx::kZoneRegistrySize, zonedbx::kZoneRegistry);
    vs.push_back({TimeZone::forError(), 0, nullptr, 0, 0, "error"}); vs.push_back({TimeZone::forError(), 0, nullptr, 0, 0, "error#2"});
    for (int sm : {0, -480, 60, 330}) for (int dm : {0, 60}) vs.push_back({TimeZone::forTimeOffset(TimeOffset::forMinutes(sm), TimeOffset::forMinutes(dm)), 1, nullptr, sm, dm, fmt("manual(%d,%d)", sm, dm)});
    vs.push_back({TimeZone::forUtc(), 1, nullptr, 0, 0, "utc"});
    const char* names[] = {"America/Los_Angeles", "Europe/London", "Asia/Kolkata", "Australia/Sydney", "America/New_York"};
    for (const char* n : names) {
      const basic::ZoneInfo* b = find_zone<BasicDb>(n); const extended::ZoneInfo* x = find_zone<ExtDb>(n);
      vs.push_back({TimeZone::forZoneInfo(b, &bp1), 2, b, 0, 0, std::string("basic:") + n}); vs.push_back({TimeZone::forZoneInfo(b, &bp2), 2, b, 0, 0, std::string("basic(other processor):") + n});
      vs.push_back({TimeZone::forZoneInfo(x, &xp1), 3, x, 0, 0, std::string("extended:") + n}); vs.push_back({TimeZone::forZoneInfo(x, &xp2), 3, x, 0, 0, std::string("extended(other processor):") + n});
      vs.push_back({bm.createForZoneName(n), 4, b, 0, 0, std::string("basicManaged:") + n}); vs.push_back({bm2.createForZoneName(n), 4, b, 0, 0, std::string("basicManaged(other manager):") + n});
      vs.push_back({xm.createForZoneName(n), 5, x, 0, 0, std::string("extendedManaged:") + n}); vs.push_back({xm2.createForZoneId(ExtDb::id(x)), 5, x, 0, 0, std::string("extendedManaged(other manager):") + n});
    }
    for (auto& p : vs) for (auto& q : vs) {
      bool want = p.kind == q.kind && (p.kind == 0 || (p.kind == 1 ? (p.s == q.s && p.d == q.d) : p.ident == q.ident));
      if ((p.tz == q.tz) != want || (p.tz != q.tz) == want) violation("c16:equality-matrix", fmt("{\"a\":\"%s\",\"b\":\"%s\",\"equal\":%d,\"want\":%d}", p.label.c_str(), q.label.c_str(), p.tz == q.tz, want));
      TimeZoneData dp = p.tz.toTimeZoneData(), dq = q.tz.toTimeZoneData();
      bool wantd = (p.kind == 0 && q.kind == 0) || (p.kind == 1 && q.kind == 1 && p.s == q.s && p.d == q.d) || (p.kind >= 2 && q.kind >= 2 && p.tz.getZoneId() == q.tz.getZoneId());
      if ((dp == dq) != wantd) violation("c16:TimeZoneData-equality-matrix", fmt("{\"a\":\"%s\",\"b\":\"%s\"}", p.label.c_str(), q.label.c_str()));
      c.add("equality_pairs");
    }
    sample(fmt("{\"values_in_equality_matrix\":%zu}", vs.size())); sample("{\"restore\":\"America/Los_Angeles created byName on ExtendedZoneManager<1> -> TimeZoneData{type 2, id 0xb7f7e8f2} -> createForTimeZoneData\"}");
  }
  done(c);
  return 0;
}
