// C18 (C++ side): dump BasicZoneProcessor::calcStartDayOfMonth for every admitted expression.
#include "acetime_all.h"
#include "verif.h"
#include "civil.h"
using namespace ace_time;
using namespace verif;
int main(int argc, char** argv) {
  Args a = parse_args(argc, argv);
  Counters c;
  FILE* f = fopen(a.get("out").c_str(), "wb"); if (!f) return 3;
  uint64_t n = 0;
  for (int y = 1873; y <= 2126; y++) for (int m = 1; m <= 12; m++) {
    int dim = civil::dim(y, m);
    for (int dow = 0; dow <= 7; dow++) for (int d = -31; d <= 31; d++) {
      if (dow == 0 && d < 1) continue;
      if (abs(d) > dim) continue;
      journal("ruleday", y, m, dow, d);
      basic::MonthDay md = BasicZoneProcessor::calcStartDayOfMonth(y, m, dow, d);
      struct __attribute__((packed)) { int16_t y; uint8_t m, dow; int8_t d; uint8_t rm, rd; } r = {(int16_t)y, (uint8_t)m, (uint8_t)dow, (int8_t)d, md.month, md.day};
      fwrite(&r, sizeof r, 1, f); n++;
    }
  }
  fclose(f);
  c.add("cxx_cases", n);
  done(c);
  return 0;
}
