// C18 (C++ side): dump BasicZoneProcessor::calcStartDayOfMonth for every admitted expression.
#include <map>
#include "acetime_all.h"
#include "verif.h"
#include "civil.h"
using namespace ace_time;
using namespace verif;
int main(int argc, char** argv) {
  Args a = parse_args(argc, argv);
  Counters c;
  FILE* f = fopen(a.get("out").c_str(), "wb"); if (!f) return 3;
  uint64_t n = 0;
  for (int y = 1873; y <= 2126; y++) for (int m = 1; m <= 12; m++) {
    int dim = civil::dim(y, m);
    for (int dow = 0; dow <= 7; dow++) for (int d = -31; d <= 31; d++) {
      if (dow == 0 && d < 1) continue;
      if (abs(d) > dim) continue;
      journal("ruleday", y, m, dow, d);
      basic::MonthDay md = BasicZoneProcessor::calcStartDayOfMonth(y, m, dow, d);
      struct __attribute__((packed)) { int16_t y; uint8_t m, dow; int8_t d; uint8_t rm, rd; } r = {(int16_t)y, (uint8_t)m, (uint8_t)dow, (int8_t)d, md.month, md.day};
      fwrite(&r, sizeof r, 1, f); n++;
    }
  }
  fclose(f);
  // ---- second pass in other call orders: the resolution is a pure function of its arguments, so re-evaluating each case right
  //      after its mirror image (<=d / >=d), its neighbour month or itself must give what a call in the plain nested order gave
  {
    std::map<uint32_t, uint16_t> first;
    auto keyf = [](int y, int m, int dow, int d) { return (uint32_t)(((y - 1873) * 12 + (m - 1)) * 8 + dow) * 64u + (uint32_t)(d + 31); };
    auto valid = [](int y, int m, int dow, int d) { return m >= 1 && m <= 12 && !(dow == 0 && d < 1) && abs(d) <= civil::dim(y, m); };
    for (int y = 1873; y <= 2126; y++) for (int m = 1; m <= 12; m++) for (int dow = 0; dow <= 7; dow++) for (int d = -31; d <= 31; d++) {
      if (!valid(y, m, dow, d)) continue;
      basic::MonthDay md = BasicZoneProcessor::calcStartDayOfMonth(y, m, dow, d); first[keyf(y, m, dow, d)] = (uint16_t)(md.month * 256 + md.day);
    }
    uint64_t n2 = 0;
    auto again = [&](int y, int m, int dow, int d, const char* after) {
      if (!valid(y, m, dow, d)) return;
      basic::MonthDay md = BasicZoneProcessor::calcStartDayOfMonth(y, m, dow, d); n2++;
      uint16_t w = first[keyf(y, m, dow, d)];
      if ((uint16_t)(md.month * 256 + md.day) != w)
        violation("c18:cxx-result-depends-on-call-order", fmt("{\"year\":%d,\"month\":%d,\"dayOfWeek\":%d,\"dayOfMonth\":%d,\"called_after\":\"%s\",\"got\":[%d,%d],\"in_plain_order\":[%d,%d]}", y, m, dow, d, after, md.month, md.day, w / 256, w % 256));
    };
    for (int y = 1873; y <= 2126; y++) for (int dow = 1; dow <= 7; dow++) for (int d = 1; d <= 31; d++) for (int m = 1; m <= 12; m++) {
      again(y, m, dow, -d, "previous month"); again(y, m, dow, d, "its <= mirror"); again(y, m + 1, dow, d, "same expression one month earlier");
      again(y, m, dow, -d, "next month >="); again(y, m - 1, dow, d, "<= of the next month"); again(y, m, dow, 0, "previous month"); again(y, m, dow, d, "lastXxx");
    }
    c.add("cxx_cases_reordered", n2);
  }
  c.add("cxx_cases", n);
  done(c);
  return 0;
}
