SPECIFICATION Spec
CONSTANTS
  SYNC_S = 8
  INIT_S = 1
  TIMEOUT_MS = 1000
  DELTAS = {500, 1000, 8000}
  ANSWERS = {"valid", "invalid", "notready"}
  MAXD = 8000
INVARIANTS TypeOK Spacing PeriodBound Liveness
