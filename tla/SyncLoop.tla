------------------------------ MODULE SyncLoop ------------------------------
(* Model of ace_time::clock::SystemClockLoop::loop() (the 4-state request FSM)  *)
(* for one configuration. Time is in milliseconds; ages are capped just above   *)
(* the largest threshold they are compared with. Every edge of the reachable    *)
(* graph is replayed against the real class (lib/checks/c14.py, conformance).   *)
EXTENDS Naturals
CONSTANTS SYNC_S, INIT_S, TIMEOUT_MS, DELTAS, ANSWERS, MAXD
VARIABLES status, periodS, reqAge, syncAge, sent, applied, lastEv, sinceSend, needGap, everSent, spacingOk

vars == <<status, periodS, reqAge, syncAge, sent, applied, lastEv, sinceSend, needGap, everSent, spacingOk>>
CAP == SYNC_S * 1000 + TIMEOUT_MS + 1
CAPS == SYNC_S * 1000 + TIMEOUT_MS + 3 * MAXD + 1   \* bound on the time between two requests (loop() called at least every MAXD ms)
Min(a, b) == IF a < b THEN a ELSE b

Init == /\ status = "Ready" /\ periodS = INIT_S /\ reqAge = 0 /\ syncAge = 0 /\ sent = FALSE /\ applied = FALSE
        /\ lastEv = <<0, "none">> /\ sinceSend = 0 /\ needGap = 0 /\ everSent = FALSE /\ spacingOk = TRUE

Step(d, ans) ==
  LET ra == Min(reqAge + d, CAP)
      sa == Min(syncAge + d, CAP)
      ss == Min(sinceSend + d, CAPS)
  IN /\ lastEv' = <<d, ans>>
     /\ CASE status = "Ready" ->
               /\ status' = "Sent" /\ reqAge' = 0 /\ syncAge' = sa /\ periodS' = periodS
               /\ sent' = TRUE /\ applied' = FALSE
               /\ spacingOk' = (~everSent \/ ss >= needGap)
               /\ sinceSend' = 0 /\ everSent' = TRUE /\ needGap' = needGap
          [] status = "Sent" ->
               /\ sent' = FALSE /\ sinceSend' = ss /\ everSent' = everSent /\ spacingOk' = TRUE
               /\ IF ans = "valid" THEN
                     /\ status' = "Ok" /\ periodS' = SYNC_S /\ syncAge' = 0 /\ reqAge' = ra /\ applied' = TRUE
                     /\ needGap' = SYNC_S * 1000
                  ELSE IF ans = "invalid" \/ ra >= TIMEOUT_MS THEN
                     /\ status' = "Wait" /\ periodS' = periodS /\ syncAge' = sa /\ reqAge' = ra /\ applied' = FALSE
                     /\ needGap' = periodS * 1000
                  ELSE
                     /\ status' = "Sent" /\ periodS' = periodS /\ syncAge' = sa /\ reqAge' = ra /\ applied' = FALSE
                     /\ needGap' = needGap
          [] status = "Ok" ->
               /\ sent' = FALSE /\ applied' = FALSE /\ sinceSend' = ss /\ everSent' = everSent /\ spacingOk' = TRUE
               /\ periodS' = periodS /\ reqAge' = ra /\ syncAge' = sa /\ needGap' = needGap
               /\ status' = IF sa >= periodS * 1000 THEN "Ready" ELSE "Ok"
          [] status = "Wait" ->
               /\ sent' = FALSE /\ applied' = FALSE /\ sinceSend' = ss /\ everSent' = everSent /\ spacingOk' = TRUE
               /\ reqAge' = ra /\ syncAge' = sa /\ needGap' = needGap
               /\ IF ra >= periodS * 1000
                  THEN /\ status' = "Ready"
                       /\ periodS' = IF periodS >= SYNC_S \div 2 THEN SYNC_S ELSE periodS * 2
                  ELSE /\ status' = "Wait" /\ periodS' = periodS

Next == \E d \in DELTAS, ans \in ANSWERS : Step(d, ans)
Spec == Init /\ [][Next]_vars

TypeOK == /\ status \in {"Ready", "Sent", "Ok", "Wait"} /\ periodS \in INIT_S..SYNC_S /\ reqAge \in 0..CAP /\ syncAge \in 0..CAP
(* consecutive requests are at least the retry period in force apart *)
Spacing == spacingOk
(* the retry period never exceeds the sync period and a request is never outstanding in state Ok *)
PeriodBound == periodS <= SYNC_S
(* bounded liveness as a safety property: outside Sent/Ready the last request is not older than the cap *)
Liveness == (status \in {"Ok", "Wait"} /\ everSent) => sinceSend < CAPS
=============================================================================
