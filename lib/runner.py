"""Shared machinery: build cache, shard execution, known findings, evidence.

Runs under /venv/bin/python (needs /repo/tools importable for the Python
explorers). Nothing here decides a property; it only builds, shards, collects
and reports.
"""
import hashlib
import json
import os
import subprocess
import sys
import time
import shutil
import concurrent.futures as cf

VERIF = os.path.dirname(os.path.dirname(os.path.abspath(__file__)))
REPO = os.environ.get('VERIF_REPO', '/repo')
BUILD = os.path.join(VERIF, '.build')
OUT = os.environ.get('VERIF_OUT', VERIF)   # evidence/replays root (redirected when testing seeded faults)
NCPU = int(os.environ.get('VERIF_JOBS', os.cpu_count() or 4))
CXX = 'g++'
SAN_CXX = 'clang++-14' if shutil.which('clang++-14') else ('clang++' if shutil.which('clang++') else 'g++')

LIB_SRCS = [
    'src/ace_time/BasicZoneProcessor.cpp', 'src/ace_time/ExtendedZoneProcessor.cpp',
    'src/ace_time/LocalDate.cpp', 'src/ace_time/LocalDateTime.cpp', 'src/ace_time/LocalTime.cpp',
    'src/ace_time/OffsetDateTime.cpp', 'src/ace_time/TimeOffset.cpp', 'src/ace_time/TimePeriod.cpp',
    'src/ace_time/TimeZone.cpp', 'src/ace_time/ZonedDateTime.cpp',
    'src/ace_time/common/DateStrings.cpp', 'src/ace_time/common/compat.cpp',
    'src/ace_time/zonedb/zone_infos.cpp', 'src/ace_time/zonedb/zone_policies.cpp',
    'src/ace_time/zonedb/zone_registry.cpp',
    'src/ace_time/zonedbx/zone_infos.cpp', 'src/ace_time/zonedbx/zone_policies.cpp',
    'src/ace_time/zonedbx/zone_registry.cpp',
]

FLAVOURS = {
    'fast': (CXX, ['-O2']),
    'san': (CXX, ['-O1', '-g', '-fsanitize=address,undefined', '-fno-sanitize-recover=all',
                  '-fno-omit-frame-pointer']),
    'ubreport': (CXX, ['-O1', '-g', '-fsanitize=undefined', '-fno-omit-frame-pointer']),
    # ASan aborts, UBSan reports every distinct site and continues (sites are collected from stderr)
    # sanrec0 = -O0: with optimisation GCC merges identical overflow checks of inlined callees, so which of several identical
    # expressions reports (and under which function) depends on code layout; unoptimised, every site reports on its own
    'sanrec': (CXX, ['-O1', '-g', '-fsanitize=address,undefined', '-fno-omit-frame-pointer']),
    'sanrec0': (CXX, ['-O0', '-g', '-fsanitize=address,undefined', '-fno-omit-frame-pointer']),
}
BASE_FLAGS = ['-std=gnu++11', '-DUNIX_HOST_DUINO', '-DSEANDST_ACETIME_VERIF=1', '-w',
              '-I', os.path.join(VERIF, 'cxx/shim'), '-I', os.path.join(VERIF, 'cxx/common')]


class Broken(Exception):
    """The machinery (not the property) failed: build error, oracle disagreement."""


def log(*a):
    print(*a, file=sys.stderr, flush=True)


def _hash_tree(paths, exts=None):
    h = hashlib.sha256()
    for p in paths:
        if os.path.isfile(p):
            files = [p]
        else:
            files = []
            for d, dn, fn in os.walk(p):
                dn.sort()
                if '__pycache__' in d:
                    continue
                for f in sorted(fn):
                    if exts is None or os.path.splitext(f)[1] in exts:
                        files.append(os.path.join(d, f))
        for f in files:
            h.update(f.encode())
            with open(f, 'rb') as fh:
                h.update(fh.read())
    return h.hexdigest()


_src_hash_cache = {}


def repo_src_hash():
    if 'src' not in _src_hash_cache:
        _src_hash_cache['src'] = _hash_tree([os.path.join(REPO, 'src')], {'.h', '.cpp', '.inc'})
    return _src_hash_cache['src']


def _run(cmd, **kw):
    return subprocess.run(cmd, stdout=subprocess.PIPE, stderr=subprocess.PIPE, text=True, **kw)


def _prune_build(keep=6):
    try:
        ds = [os.path.join(BUILD, d) for d in os.listdir(BUILD)]
        ds = [d for d in ds if os.path.isdir(d)]
        ds.sort(key=os.path.getmtime, reverse=True)
        for d in ds[keep:]:
            shutil.rmtree(d, ignore_errors=True)
    except FileNotFoundError:
        pass


def build_lib(flavour, extra_flags=(), repo_src=None):
    """Compile the library objects from the working tree; cached by content hash."""
    repo_src = repo_src or os.path.join(REPO, 'src')
    cxx, fl = FLAVOURS[flavour]
    shim_h = _hash_tree([os.path.join(VERIF, 'cxx/shim')])
    key = hashlib.sha256((repo_src_hash() + shim_h + flavour + repr(fl) + repr(extra_flags)).encode()).hexdigest()[:16]
    d = os.path.join(BUILD, 'lib-' + key)
    stamp = os.path.join(d, 'OK')
    if os.path.exists(stamp):
        os.utime(d)
        return d
    os.makedirs(d, exist_ok=True)
    t0 = time.time()

    def cc(src):
        obj = os.path.join(d, src.replace('/', '_') + '.o')
        cmd = [cxx] + BASE_FLAGS + fl + list(extra_flags) + ['-I', repo_src, '-c', os.path.join(REPO, src), '-o', obj]
        r = _run(cmd)
        if r.returncode != 0:
            raise Broken('compile failed: %s\n%s' % (src, r.stderr[-3000:]))
        return obj
    with cf.ThreadPoolExecutor(NCPU) as ex:
        list(ex.map(cc, LIB_SRCS))
    open(stamp, 'w').close()
    log('[build] library (%s) compiled in %.1fs -> %s' % (flavour, time.time() - t0, d))
    _prune_build(12)
    return d


def build_driver(driver, flavour='fast', extra_srcs=(), extra_flags=(), with_lib=True, extra_inc=(), strict=False):
    """driver: path relative to /verif/cxx. Returns binary path."""
    cxx, fl = FLAVOURS[flavour]
    dpath = os.path.join(VERIF, 'cxx', driver)
    libd = build_lib(flavour) if with_lib else ''
    hh = hashlib.sha256()
    hh.update(_hash_tree([dpath, os.path.join(VERIF, 'cxx/common'), os.path.join(VERIF, 'cxx/shim')]).encode())
    for s in extra_srcs:
        hh.update(_hash_tree([s]).encode())
    hh.update((libd + flavour + repr(fl) + repr(extra_flags) + repr(extra_inc) + repr(strict) + repo_src_hash()).encode())
    key = hh.hexdigest()[:16]
    d = os.path.join(BUILD, 'drv-' + key)
    exe = os.path.join(d, os.path.splitext(os.path.basename(driver))[0])
    if os.path.exists(exe):
        os.utime(d)
        return exe
    os.makedirs(d, exist_ok=True)
    t0 = time.time()
    objs = [os.path.join(libd, f) for f in sorted(os.listdir(libd)) if f.endswith('.o')] if with_lib else []
    inc = []
    for i in extra_inc:
        inc += ['-I', i]
    base = [f for f in BASE_FLAGS if not (strict and f == '-w')]   # strict: keep the compiler's default diagnostics (narrowing is an error)
    cmd = [cxx] + base + fl + list(extra_flags) + inc + ['-I', os.path.join(REPO, 'src'), dpath] + list(extra_srcs) + objs + ['-o', exe + '.tmp']
    r = _run(cmd)
    if r.returncode != 0:
        raise Broken('driver build failed: %s\n%s' % (driver, r.stderr[-4000:]))
    os.rename(exe + '.tmp', exe)
    log('[build] %s (%s) in %.1fs' % (driver, flavour, time.time() - t0))
    return exe


SAN_ENV = {
    'ASAN_OPTIONS': 'abort_on_error=1:detect_leaks=0:handle_abort=0:allocator_may_return_null=1',
    'UBSAN_OPTIONS': 'print_stacktrace=1:abort_on_error=1',
}


class ShardResult:
    def __init__(self):
        self.records = []
        self.counts = {}
        self.violations = []   # (key, detail)
        self.viol_totals = {}
        self.samples = []
        self.crashes = []      # dicts
        self.stderr_tail = []
        self.stderr_all = []

    def merge_record(self, r):
        t = r.get('type')
        if t == 'counts':
            for k, v in r.items():
                if k != 'type' and not k.startswith('_'):
                    if k.startswith('max_'):
                        self.counts[k] = max(self.counts.get(k, 0), v)
                    else:
                        self.counts[k] = self.counts.get(k, 0) + v
        elif t == 'violation':
            self.violations.append((r['key'], r.get('detail')))
        elif t == 'violation_total':
            self.viol_totals[r['key']] = self.viol_totals.get(r['key'], 0) + r['n']
        elif t == 'sample':
            self.samples.append(r['v'])
        elif t == 'crash':
            self.crashes.append(r)
        else:
            self.records.append(r)


def run_shards(exe, args, nshards=None, timeout=3600, env=None, san=False, tier='quick', seed=0):
    """Run exe --shard=i/n for all i in parallel; gather JSON-lines output."""
    nshards = nshards or NCPU
    e = dict(os.environ)
    if san:
        e.update(SAN_ENV)
    if env:
        e.update(env)
    res = ShardResult()

    def one(i):
        cmd = [exe, '--shard=%d/%d' % (i, nshards), '--tier=%s' % tier, '--seed=%d' % seed] + list(args)
        try:
            p = subprocess.run(cmd, stdout=subprocess.PIPE, stderr=subprocess.PIPE, env=e, timeout=timeout)
            return i, p.returncode, p.stdout.decode('utf-8', 'replace'), p.stderr.decode('utf-8', 'replace'), False
        except subprocess.TimeoutExpired as t:
            return i, -1, (t.stdout or b'').decode('utf-8', 'replace'), (t.stderr or b'').decode('utf-8', 'replace'), True
    with cf.ThreadPoolExecutor(min(nshards, NCPU)) as ex:
        outs = list(ex.map(one, range(nshards)))
    for i, rc, out, err, timed_out in outs:
        done = False
        res.stderr_all.append(err)
        for line in out.splitlines():
            line = line.strip()
            if not line.startswith('{'):
                continue
            try:
                r = json.loads(line)
            except ValueError:
                continue
            if r.get('type') == 'done':
                done = True
                continue
            r['_shard'] = i
            res.merge_record(r)
        if timed_out:
            res.crashes.append({'type': 'crash', 'signal': 'timeout', 'tag': 'shard-timeout', 'text': 'shard %d exceeded %ds' % (i, timeout), '_shard': i})
        elif rc != 0 or not done:
            if not any(c.get('_shard') == i for c in res.crashes):
                res.crashes.append({'type': 'crash', 'signal': rc, 'tag': 'exit', 'text': 'shard %d exit %s without done' % (i, rc), '_shard': i})
            res.stderr_tail.append(err[-3000:])
            for c in res.crashes:
                if c.get('_shard') == i:
                    c['stderr'] = err[-3000:]
    return res


# ---------------------------------------------------------------- findings

def load_known():
    p = os.path.join(VERIF, 'known_findings.json')
    if not os.path.exists(p):
        return []
    with open(p) as f:
        return json.load(f)


class Report:
    """Collects violations for one property run; prints the interface lines."""

    def __init__(self, pid, tier, seed, level):
        self.pid, self.tier, self.seed, self.level = pid, tier, seed, level
        self.t0 = time.time()
        self.coverage = {}
        self.assumptions = []
        self.viol = {}       # key -> list of details
        self.viol_n = {}
        self.known = {k['key']: k for k in load_known() if k['property'] == pid and k.get('status') == 'known'}
        self.samples = []

    def violation(self, key, detail, n=1):
        self.viol.setdefault(key, [])
        if len(self.viol[key]) < 5:
            self.viol[key].append(detail)
        self.viol_n[key] = self.viol_n.get(key, 0) + n

    def absorb(self, res, crash_key_prefix='crash'):
        """Fold a ShardResult in. Crashes are violations keyed by their journal tag."""
        for k, v in res.counts.items():
            if k.startswith('max_'):
                self.coverage[k] = max(self.coverage.get(k, 0), v)
            else:
                self.coverage[k] = self.coverage.get(k, 0) + v
        seen = {}
        for key, det in res.violations:
            self.violation(key, det, 0)
            seen[key] = seen.get(key, 0) + 1
        for key, n in res.viol_totals.items():
            self.viol_n[key] = self.viol_n.get(key, 0) + n
            self.viol.setdefault(key, [])
        for key, n in seen.items():
            if key not in res.viol_totals:
                self.viol_n[key] = self.viol_n.get(key, 0) + n
        for c in res.crashes:
            key = '%s:%s' % (crash_key_prefix, classify_crash(c))
            self.violation(key, c)
        for s in res.samples:
            if len(self.samples) < 12:
                self.samples.append(s)

    def finish(self, exhaustive=None, extra=None):
        cov = dict(self.coverage)
        if extra:
            cov.update(extra)
        cov.setdefault('samples', self.samples[:12] or ['(none recorded)'])
        if exhaustive is not None:
            cov['exhaustive'] = bool(exhaustive)
        unlisted = 0
        lines = []
        rdir = os.path.join(OUT, 'replays', self.pid)
        os.makedirs(rdir, exist_ok=True)
        for f_ in os.listdir(rdir):      # replay files describe this run only; stale ones from earlier runs are removed
            if f_.endswith('.json'):
                os.remove(os.path.join(rdir, f_))
        kf = []
        for key in sorted(self.viol):
            if key in self.known:
                lines.append('KNOWN-FINDING: property=%s %s [%s] (%d occurrence(s))' % (self.pid, self.known[key]['text'], key, self.viol_n.get(key, 0)))
                kf.append(key)
                continue
            unlisted += 1
            fn = os.path.join(OUT, 'replays', self.pid, _safe(key) + '.json')
            with open(fn, 'w') as f:
                json.dump({'property': self.pid, 'key': key, 'occurrences': self.viol_n.get(key, 0),
                           'cases': self.viol[key], 'tier': self.tier, 'seed': self.seed,
                           'replay': 'bin/check %s --replay %s' % (self.pid, fn)}, f, indent=1, default=str)
            lines.append('VIOLATION property=%s replay=%s' % (self.pid, fn))
            log('  violation key=%s n=%d first=%s' % (key, self.viol_n.get(key, 0), json.dumps(self.viol[key][:1], default=str)[:600]))
        cov['known_findings_seen'] = kf
        ev = {'property_id': self.pid, 'tier': self.tier, 'seed': self.seed, 'level': self.level,
              'coverage': cov, 'assumptions': self.assumptions, 'wall_s': round(time.time() - self.t0, 2),
              'violations': unlisted}
        os.makedirs(os.path.join(OUT, 'evidence'), exist_ok=True)
        with open(os.path.join(OUT, 'evidence', self.pid + '.json'), 'w') as f:
            json.dump(ev, f, indent=1, default=str)
            f.write('\n')
        for l in lines:
            print(l, flush=True)
        log('[%s] tier=%s wall=%.1fs unlisted_violations=%d known=%d' % (self.pid, self.tier, time.time() - self.t0, unlisted, len(kf)))
        return 1 if unlisted else 0


def _safe(s):
    return ''.join(c if c.isalnum() or c in '-_.' else '_' for c in s)[:120]


def classify_crash(c):
    """Stable key for a crash record: sanitizer kind + top AceTime frame if present."""
    err = c.get('stderr', '') or ''
    kind = None
    import re
    m = re.search(r'runtime error: ([a-z][a-z \-]+?)(?::| of| in| for| by| \d|$)', err)
    if m:
        kind = 'ubsan-' + m.group(1).strip().replace(' ', '-')
    m2 = re.search(r'ERROR: AddressSanitizer: ([\w\-]+)', err)
    if m2:
        kind = 'asan-' + m2.group(1)
    if c.get('signal') == 'timeout' or c.get('signal') == 14:
        kind = 'hang'
    if kind is None:
        kind = 'signal-%s' % c.get('signal')
    site = None
    for m in re.finditer(r'(?:ace_time/|src/)([\w/]+\.(?:h|cpp)):(\d+)', err):
        site = m.group(1).split('/')[-1]
        break
    fn = None
    m = re.search(r'#\d+ 0x[0-9a-f]+ in ((?:ace_time::)[\w:~]+)', err)
    if m:
        fn = m.group(1)
    return ':'.join(x for x in [kind, fn or site or c.get('tag', '')] if x)


def ub_sites(stderr_texts):
    """Parse UBSan recover-mode reports: -> {key: {'message':..., 'site':..., 'count': n}}; key = ubsan:<kind>:<first ace_time frame>."""
    import re
    out = {}
    for text in stderr_texts:
        lines = text.splitlines()
        for i, l in enumerate(lines):
            m = re.match(r'(\S+?):(\d+):(\d+): runtime error: (.*)$', l)
            if not m:
                continue
            fil, line, col, msg = m.groups()
            kind = re.split(r'[:,]| of | for | in | by |\d', msg)[0].strip().replace(' ', '-')
            if msg.startswith('signed integer overflow'): kind = 'signed-integer-overflow'
            elif msg.startswith('index'): kind = 'index-out-of-bounds'
            elif msg.startswith('negation'): kind = 'negation-overflow'
            elif msg.startswith('left shift') or msg.startswith('shift'): kind = 'shift'
            elif 'null pointer' in msg: kind = 'null-pointer'
            elif msg.startswith('load of value'): kind = 'invalid-load'
            elif msg.startswith('division by zero'): kind = 'division-by-zero'
            fn = None
            for j in range(i + 1, min(i + 12, len(lines))):
                fm = re.match(r'\s+#\d+ 0x[0-9a-f]+ in (.+?) [(/]', lines[j])      # "fn /path:line" or "fn (module+0x..)" 
                if not fm:
                    if re.match(r'\S+?:\d+:\d+: runtime error', lines[j]):
                        break
                    continue
                f = fm.group(1)
                if f.startswith('ace_time::'):      # the innermost library frame (not a harness template instantiated with a library type)
                    fn = re.sub(r'\(.*$', '', f)
                    break
            site = os.path.basename(fil) + ':' + line
            key = 'ubsan:%s:%s' % (kind, fn or site)
            e = out.setdefault(key, {'message': msg, 'site': site, 'count': 0})
            e['count'] += 1
    return out


def generic_replay(pid, path):
    """Re-execute the recorded check (same tier and seed) on the current tree with evidence/replays redirected to a scratch
    directory; exit status 1 iff the recorded violation key is reported again."""
    import tempfile, shutil
    rec = json.load(open(path))
    key, tier, seed = rec.get('key'), rec.get('tier', 'quick'), rec.get('seed', 0)
    out = tempfile.mkdtemp(prefix='verif-replay-')
    try:
        env = dict(os.environ, VERIF_OUT=out, VERIF_SEED=str(seed))
        r = subprocess.run([os.path.join(VERIF, 'bin', 'check'), pid, '--tier', tier], env=env, stdout=subprocess.PIPE, stderr=subprocess.PIPE, text=True)
        again = []
        rdir = os.path.join(out, 'replays', pid)
        if os.path.isdir(rdir):
            for f in os.listdir(rdir):
                try:
                    again.append(json.load(open(os.path.join(rdir, f))))
                except Exception:
                    pass
        hit = [a for a in again if a.get('key') == key]
        print('replay of %s: re-ran %s tier=%s seed=%s on the current tree (exit %d): key %s %s' % (os.path.basename(path), pid, tier, seed, r.returncode, key, 'REPRODUCED' if hit else 'not reproduced'))
        if hit:
            print(json.dumps(hit[0].get('cases', [])[:2], indent=1, default=str)[:2000])
        return 1 if hit else 0
    finally:
        shutil.rmtree(out, ignore_errors=True)
