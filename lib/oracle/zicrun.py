"""Compile TZ text with the system zic and build per-zone oracle tables, cross-checked
three ways (own TZif reader + POSIX footer evaluator, zdump -v, CPython zoneinfo)."""
import os, subprocess, tempfile, shutil, datetime, re, calendar, zoneinfo, hashlib, pickle
import concurrent.futures as cf
from . import tzif
import runner

ZIC = shutil.which('zic') or '/usr/sbin/zic'
ZDUMP = shutil.which('zdump') or '/usr/bin/zdump'
UNIX2000 = 946684800
LO = calendar.timegm((1999, 1, 1, 0, 0, 0))
HI = calendar.timegm((2051, 1, 1, 0, 0, 0))

_MON = {m: i + 1 for i, m in enumerate(['Jan', 'Feb', 'Mar', 'Apr', 'May', 'Jun', 'Jul', 'Aug', 'Sep', 'Oct', 'Nov', 'Dec'])}

def _zdump_table(path, lo, hi):
    r = subprocess.run([ZDUMP, '-v', '-c', '1998,2052', path], stdout=subprocess.PIPE, text=True, check=True)
    rows = []
    for line in r.stdout.splitlines():
        m = re.match(r'\S+\s+\w+ (\w+)\s+(\d+) (\d+):(\d+):(\d+) (-?\d+) UTC? = .* (\S+) isdst=(\d) gmtoff=(-?\d+)', line)
        if not m:
            continue
        mon, d, h, mi, s, y, ab, isdst, off = m.groups()
        t = calendar.timegm((int(y), _MON[mon], int(d), int(h), int(mi), int(s)))
        rows.append((t, int(off), int(isdst), ab))
    return rows

def compile_text(text, names, lo=LO, hi=HI, crosscheck=True, tag='src'):
    """-> {name: [(start_epoch2000, utoff, isdst, abbrev), ...]} ; raises runner.Broken on oracle disagreement."""
    key = hashlib.sha256((text + repr(sorted(names)) + repr((lo, hi, crosscheck))).encode()).hexdigest()[:20]
    cache = os.path.join(runner.BUILD, 'zic-%s.pkl' % key)
    if os.path.exists(cache):
        with open(cache, 'rb') as f:
            return pickle.load(f)
    d = tempfile.mkdtemp(prefix='verif-zic-')
    try:
        src = os.path.join(d, 'src.tz')
        with open(src, 'w') as f:
            f.write(text)
        out = os.path.join(d, 'out')
        r = subprocess.run([ZIC, '-b', 'fat', '-d', out, src], stdout=subprocess.PIPE, stderr=subprocess.PIPE, text=True)
        if r.returncode != 0:
            raise runner.Broken('zic rejected %s: %s' % (tag, r.stderr[:2000]))
        warn = [l for l in r.stderr.splitlines() if 'warning' in l]
        def one(name):
            p = os.path.join(out, name)
            tab = tzif.table(p, lo, hi)
            if crosscheck:
                # (1) zdump: every change it reports inside the window must be a breakpoint of ours with the same after-state
                zd = _zdump_table(p, lo, hi)
                ours = {t: (u, i, a) for (t, u, i, a) in tab}
                def at(t):
                    cur = tab[0]
                    for e in tab:
                        if e[0] <= t: cur = e
                        else: break
                    return cur[1:]
                for (t, off, isdst, ab) in zd:
                    if lo <= t < hi and at(t) != (off, isdst, ab):
                        raise runner.Broken('oracle disagreement tzif-reader vs zdump: %s at %d: %r vs %r' % (name, t, at(t), (off, isdst, ab)))
                zd_breaks = set()
                for i in range(1, len(zd)):
                    if zd[i][0] == zd[i-1][0] + 1 and zd[i][1:] != zd[i-1][1:] and lo < zd[i][0] < hi:
                        zd_breaks.add(zd[i][0])
                ob = set(t for (t, _, _, _) in tab[1:])
                if zd_breaks - ob:
                    raise runner.Broken('zdump reports breakpoints our table lacks: %s %r' % (name, sorted(zd_breaks - ob)[:3]))
                # (2) CPython zoneinfo at every breakpoint -1/0/+1 s and mid-interval
                with open(p, 'rb') as fh:
                    zi = zoneinfo.ZoneInfo.from_file(fh, key=name)
                pts = []
                for k, (t, u, i, a) in enumerate(tab):
                    nxt = tab[k + 1][0] if k + 1 < len(tab) else hi
                    pts += [(t, (u, i, a)), (t + 1, (u, i, a)), (nxt - 1, (u, i, a)), ((t + nxt) // 2, (u, i, a))]
                for t, (u, i, a) in pts:
                    dt = datetime.datetime.fromtimestamp(t, zi)
                    got = (int(dt.utcoffset().total_seconds()), 1 if dt.dst() else 0, dt.tzname())
                    if got != (u, i, a):
                        raise runner.Broken('oracle disagreement tzif-reader vs zoneinfo: %s at %d: %r vs %r' % (name, t, (u, i, a), got))
            return name, [(t - UNIX2000, u, i, a) for (t, u, i, a) in tab]
        with cf.ThreadPoolExecutor(runner.NCPU) as ex:
            res = dict(ex.map(one, names))
        res['__warnings__'] = warn
        os.makedirs(runner.BUILD, exist_ok=True)
        with open(cache, 'wb') as f:
            pickle.dump(res, f)
        return res
    finally:
        shutil.rmtree(d, ignore_errors=True)

def write_tables(tables, names, path):
    """flat text table for the C++ drivers"""
    with open(path, 'w') as f:
        for n in names:
            t = tables[n]
            f.write('Z %s %d\n' % (n, len(t)))
            for (s, u, i, a) in t:
                f.write('T %d %d %d %s\n' % (s, u, i, a))
    return path
