"""TZif reader (v2+ 64-bit block) with a POSIX-TZ footer evaluator; produces a
piecewise-constant table [(utc_start, utoff, isdst, abbrev)] over a window."""
import struct, calendar, re

def read_tzif(path):
    b = open(path, 'rb').read()
    def header(o):
        assert b[o:o+4] == b'TZif', path
        ver = b[o+4:o+5]
        cnt = struct.unpack('>6l', b[o+20:o+44])
        return ver, cnt
    ver, (isutc, isstd, leap, timecnt, typecnt, charcnt) = header(0)
    o = 44 + timecnt * 5 + typecnt * 6 + charcnt + leap * 8 + isstd + isutc
    assert ver >= b'2', 'need 64-bit data'
    ver, (isutc, isstd, leap, timecnt, typecnt, charcnt) = header(o)
    o += 44
    times = struct.unpack('>%dq' % timecnt, b[o:o + 8 * timecnt]); o += 8 * timecnt
    idx = b[o:o + timecnt]; o += timecnt
    types = []
    for i in range(typecnt):
        utoff, isdst, ab = struct.unpack('>lBB', b[o:o+6]); o += 6
        types.append((utoff, isdst, ab))
    chars = b[o:o+charcnt]; o += charcnt
    assert leap == 0
    o += isstd + isutc
    footer = b[o:].strip().decode('ascii')
    def ab(i):
        return chars[i:chars.index(b'\0', i)].decode('ascii')
    tt = [(u, d, ab(a)) for (u, d, a) in types]
    return times, [tt[i] for i in idx], tt, footer

# ---- POSIX TZ
def _parse_name(s):
    if s.startswith('<'):
        e = s.index('>')
        return s[1:e], s[e+1:]
    m = re.match(r'[A-Za-z]{3,}', s)
    return m.group(0), s[m.end():]

def _parse_off(s):
    m = re.match(r'([+-]?)(\d{1,3})(?::(\d{1,2}))?(?::(\d{1,2}))?', s)
    if not m:
        return None, s
    v = int(m.group(2)) * 3600 + int(m.group(3) or 0) * 60 + int(m.group(4) or 0)
    return (-v if m.group(1) == '-' else v), s[m.end():]

def parse_posix(tz):
    std, r = _parse_name(tz)
    so, r = _parse_off(r)
    stdoff = -so
    if not r:
        return dict(std=std, stdoff=stdoff, dst=None)
    dst, r = _parse_name(r)
    do, r = _parse_off(r)
    dstoff = stdoff + 3600 if do is None else -do
    assert r.startswith(','), tz
    parts = r[1:].split(',')
    def rule(p):
        d, _, t = p.partition('/')
        secs = 7200
        if t:
            secs, rest = _parse_off(t)
        return d, secs
    return dict(std=std, stdoff=stdoff, dst=dst, dstoff=dstoff, start=rule(parts[0]), end=rule(parts[1]))

def _rule_day(year, d):
    """-> days since 1970-01-01 of rule day in year"""
    jan1 = calendar.timegm((year, 1, 1, 0, 0, 0)) // 86400
    if d.startswith('M'):
        m, w, wd = map(int, d[1:].split('.'))
        first = calendar.timegm((year, m, 1, 0, 0, 0)) // 86400
        fw = (first + 4) % 7   # 0=Sunday
        day = first + (wd - fw) % 7 + (w - 1) * 7
        dim = calendar.monthrange(year, m)[1]
        while day >= first + dim:
            day -= 7
        return day
    if d.startswith('J'):
        n = int(d[1:])
        if calendar.isleap(year) and n >= 60:
            n += 1
        return jan1 + n - 1
    return jan1 + int(d)

def posix_transitions(p, y0, y1):
    """[(utc, utoff, isdst, abbrev)] for years y0..y1"""
    out = []
    if p['dst'] is None:
        return out
    for y in range(y0, y1 + 1):
        sd, st = p['start']; ed, et = p['end']
        ts = _rule_day(y, sd) * 86400 + st - p['stdoff']
        te = _rule_day(y, ed) * 86400 + et - p['dstoff']
        out.append((ts, p['dstoff'], 1, p['dst']))
        out.append((te, p['stdoff'], 0, p['std']))
    out.sort()
    return out

UNIX2000 = 946684800

def table(path, lo_unix, hi_unix):
    """piecewise-constant table over [lo,hi): list of (start_unix, utoff, isdst, abbrev); first entry start=lo."""
    times, infos, tt, footer = read_tzif(path)
    tr = list(zip(times, infos))
    if footer:
        p = parse_posix(footer)
        last = times[-1] if times else -2**62
        import time as _t
        y0 = max(1970, _t.gmtime(max(last, 0)).tm_year - 1) if times else 1998
        y1 = _t.gmtime(hi_unix).tm_year + 1
        if p['dst'] is None:
            if not times:
                tr = [(-2**62, (p['stdoff'], 0, p['std']))]
        else:
            all_year = False
            extra = [(t, (u, d, a)) for (t, u, d, a) in posix_transitions(p, y0, y1) if t > last]
            tr += extra
    else:
        # no footer: zic could not express the future as a POSIX string; the explicit transitions are all there is
        if not times and not tt:
            raise ValueError('TZif without transitions, types or footer: ' + path)
    # state at lo
    state = None
    for t, inf in tr:
        if t <= lo_unix:
            state = inf
    if state is None:
        # before first transition: first standard-time ttinfo (RFC 8536) == tt[0]
        state = tt[0] if tt else tr[0][1]
    out = [(lo_unix, state[0], state[1], state[2])]
    for t, inf in tr:
        if lo_unix < t < hi_unix:
            if (inf[0], inf[1], inf[2]) != out[-1][1:]:
                out.append((t, inf[0], inf[1], inf[2]))
    return out
