"""TZ source text: (a) reconstructed from the comments the generator records
beside each shipped table entry, (b) the vendored 2025b tzdata.zi normalised to
the classic layout the Extractor documents."""
import os, re

def _era_line(c):
    toks = c.split()
    # STDOFF RULES FORMAT [UNTIL...]
    return '\t'.join(toks[:3]) + ('\t' + ' '.join(toks[3:]) if len(toks) > 3 else '')

def reconstruct_cpp(dbdir):
    """-> (text, zones[list of names], links{link: target}) from zone_infos.cpp/.h + zone_policies.cpp"""
    rules = []
    for line in open(os.path.join(dbdir, 'zone_policies.cpp')):
        m = re.match(r'\s*// (Rule\s.*)$', line)
        if m:
            rules.append('\t'.join(m.group(1).split()))
    zones, out = [], []
    cur, in_eras, first = None, False, True
    for line in open(os.path.join(dbdir, 'zone_infos.cpp')):
        m = re.match(r'// Zone name: (\S+)', line)
        if m:
            cur = m.group(1); zones.append(cur); first = True; continue
        if re.match(r'static const \w+::ZoneEra kZoneEra', line):
            in_eras = True; continue
        if in_eras and line.startswith('};'):
            in_eras = False; continue
        if in_eras:
            m = re.match(r'\s*//\s+(\S.*)$', line)
            if m:
                if first:
                    out.append('Zone\t%s\t%s' % (cur, _era_line(m.group(1)))); first = False
                else:
                    out.append('\t\t\t' + _era_line(m.group(1)))
    links = {}
    for line in open(os.path.join(dbdir, 'zone_infos.h')):
        m = re.match(r'extern const \S+ZoneInfo& kZone\w+; // (\S+) -> (\S+)', line)
        if m:
            links[m.group(1)] = m.group(2)
    text = '\n'.join(rules) + '\n' + '\n'.join(out) + '\n' + ''.join('Link\t%s\t%s\n' % (t, l) for l, t in sorted(links.items()))
    return text, zones, links

def reconstruct_py(dbdir):
    rules = []
    for line in open(os.path.join(dbdir, 'zone_policies.py')):
        m = re.match(r'\s*# (Rule\s.*)$', line)
        if m and len(m.group(1).split()) >= 10:
            rules.append('\t'.join(m.group(1).split()))
    zones, out = [], []
    cur, in_eras, first = None, False, True
    for line in open(os.path.join(dbdir, 'zone_infos.py')):
        m = re.match(r'# Zone name: (\S+)', line)
        if m:
            cur = m.group(1); zones.append(cur); first = True; continue
        if line.startswith('ZONE_ERAS_'):
            in_eras = True; continue
        if in_eras and line.startswith(']'):
            in_eras = False; continue
        if in_eras:
            m = re.match(r'\s*#\s+(\S.*)$', line)
            if m:
                if first:
                    out.append('Zone\t%s\t%s' % (cur, _era_line(m.group(1)))); first = False
                else:
                    out.append('\t\t\t' + _era_line(m.group(1)))
    return '\n'.join(rules) + '\n' + '\n'.join(out) + '\n', zones, {}

# ---------------------------------------------------------------- tzdata.zi (2025b, vanguard-compact form)
_MONTHS = ['Jan', 'Feb', 'Mar', 'Apr', 'May', 'Jun', 'Jul', 'Aug', 'Sep', 'Oct', 'Nov', 'Dec']
_DAYS = ['Mon', 'Tue', 'Wed', 'Thu', 'Fri', 'Sat', 'Sun']

def _month(s):
    c = [m for m in _MONTHS if m.lower().startswith(s.lower())]
    assert len(c) == 1, s
    return c[0]

def _wday(s):
    c = [d for d in _DAYS if d.lower().startswith(s.lower())]
    assert len(c) == 1, s
    return c[0]

def _on(s):
    if s[0].isdigit():
        return s
    if s.lower().startswith('l') and not ('=' in s):
        return 'last' + _wday(s[4:] if s.lower().startswith('last') else s[1:])
    m = re.match(r'([A-Za-z]+)([<>]=)(\d+)$', s)
    assert m, s
    return _wday(m.group(1)) + m.group(2) + m.group(3)

def _hm(s, force_colon=True):
    """'2' -> '2:00', '2:30s' -> '2:30s', '-' -> '-' ; keeps suffix letters"""
    if s == '-':
        return '0:00' if force_colon else s
    m = re.match(r'(-?)(\d+)(?::(\d+))?(?::(\d+))?([wsugz]?)$', s)
    assert m, s
    sign, h, mi, sec, suf = m.groups()
    t = '%s%d:%02d' % (sign, int(h), int(mi or 0))
    if sec and int(sec):
        t += ':%02d' % int(sec)
    return t + suf

def _fmt_z(offsec):
    sign = '-' if offsec < 0 else '+'
    a = abs(offsec)
    h, m, s = a // 3600, a % 3600 // 60, a % 60
    r = '%s%02d' % (sign, h)
    if m or s:
        r += '%02d' % m
    if s:
        r += '%02d' % s
    return r

def _secs(s):
    m = re.match(r'(-?)(\d+)(?::(\d+))?(?::(\d+))?', s)
    sign, h, mi, sec = m.groups()
    v = int(h) * 3600 + int(mi or 0) * 60 + int(sec or 0)
    return -v if sign else v

def normalise_zi(path='/usr/share/zoneinfo/tzdata.zi', drop=()):
    """Expand the compact .zi form into classic TZ text. Returns (text, zones, links, dropped{name:reason})."""
    rules, zones, links = {}, {}, {}
    order, cur = [], None
    for raw in open(path):
        line = raw.split('#')[0].rstrip()
        if not line.strip():
            continue
        t = line.split()
        if t[0] == 'R':
            rules.setdefault(t[1], []).append(t[2:])
            cur = None
        elif t[0] == 'Z':
            cur = t[1]; zones[cur] = [t[2:]]; order.append(cur)
        elif t[0] == 'L':
            links[t[2]] = t[1]; cur = None
        else:
            assert cur is not None, line
            zones[cur].append(t)
    # rule names are abbreviated in the .zi (e.g. 'd', 'K'); keep as they are (valid identifiers for zic)
    dropped = {}
    out_rules = []
    rule_saves = {}
    for name, rs in rules.items():
        saves = set()
        for r in rs:
            frm, to, _, mon, on, at, save, letter = r
            to2 = {'o': 'only', 'ma': 'max'}.get(to, to)
            if to2 not in ('only', 'max') and not to2.isdigit():
                to2 = 'max' if 'max'.startswith(to2) else 'only'
            sv = _hm(save)
            isdst_suffix = ''
            if sv[-1] in 'sd':   # explicit isdst marker (not used in 2025b main data)
                isdst_suffix = sv[-1]; sv = sv[:-1]
            to_y = 9999 if to2 == 'max' else (int(frm) if to2 == 'only' else int(to2))
            if to_y >= 1997:   # only rules that can act from 2000 on decide how %z is spelled out (self-checked against zic below)
                saves.add(_secs(sv))
            out_rules.append('Rule\t%s\t%s\t%s\t-\t%s\t%s\t%s\t%s%s\t%s' % (
                name, frm, to2, _month(mon), _on(on), _hm(at), sv, isdst_suffix, letter))
        rule_saves[name] = saves
    out_zones, kept = [], []
    for name in order:
        if name in drop:
            dropped[name] = 'excluded by caller'; continue
        lines, ok = [], True
        for i, e in enumerate(zones[name]):
            stdoff, rule, fmt = e[0], e[1], e[2]
            until = e[3:]
            off = _secs(stdoff)
            stdoff_t = _hm(stdoff)
            if rule == '-':
                rule_t = '-'; saves = {0}
            elif re.match(r'-?\d', rule):
                rule_t = _hm(rule); saves = {_secs(rule)}
            else:
                rule_t = rule; saves = rule_saves[rule]
            if '%z' in fmt:
                nz = sorted(s for s in saves if s != 0)
                if rule_t == '-' or not nz:
                    fmt = fmt.replace('%z', _fmt_z(off))
                elif re.match(r'-?\d', rule_t):
                    fmt = fmt.replace('%z', _fmt_z(off + nz[0]))
                elif len(nz) == 1:
                    fmt = fmt.replace('%z', _fmt_z(off) + '/' + _fmt_z(off + nz[0]))
                else:
                    ok = False
                    dropped[name] = '%%z with %d distinct non-zero SAVE values cannot be written in the pre-2015 FORMAT syntax' % len(nz)
                    break
            u = []
            if until:
                u.append(until[0])
                if len(until) > 1: u.append(_month(until[1]))
                if len(until) > 2: u.append(_on(until[2]))
                if len(until) > 3: u.append(_hm(until[3]))
            body = '%s\t%s\t%s%s' % (stdoff_t, rule_t, fmt, ('\t' + ' '.join(u)) if u else '')
            lines.append(('Zone\t%s\t' % name if i == 0 else '\t\t\t') + body)
        if ok:
            out_zones += lines; kept.append(name)
    klinks = {l: t for l, t in links.items() if t in kept}
    for l, t in links.items():
        if t not in kept:
            dropped[l] = 'link to dropped zone ' + t
    text = '\n'.join(out_rules) + '\n' + '\n'.join(out_zones) + '\n' + ''.join('Link\t%s\t%s\n' % (t, l) for l, t in sorted(klinks.items()))
    return text, kept, klinks, dropped
