"""Run the repository's own TZ compiler pipeline (Extractor -> Transformer ->
TzDbCollector -> InlineGenerator / generators) in-process on a TZ source text."""
import os, sys, tempfile, shutil, logging, io, contextlib
import runner

TOOLS = os.path.join(runner.REPO, 'tools')
if TOOLS not in sys.path:
    sys.path.insert(0, TOOLS)
logging.disable(logging.CRITICAL)

ZONE_FILES = ['africa', 'antarctica', 'asia', 'australasia', 'backward', 'etcetera', 'europe', 'northamerica', 'southamerica']

def write_input_dir(text, d=None):
    d = d or tempfile.mkdtemp(prefix='verif-tz-')
    for f in ZONE_FILES:
        with open(os.path.join(d, f), 'w') as fh:
            fh.write(text if f == 'africa' else '')
    return d

class Compiled(dict):
    __getattr__ = dict.__getitem__

def compile_text(text, scope, start_year=2000, until_year=2050, tz_version='verif', until_at_granularity=60, offset_granularity=None, strict=True, inline=True):
    from tzdb.extractor import Extractor
    from tzdb.transformer import Transformer
    from tzdb.tzdbcollector import TzDbCollector
    from zonedb.ingenerator import InlineGenerator
    if offset_granularity is None:
        offset_granularity = 900 if scope == 'basic' else 60
    d = write_input_dir(text)
    try:
        with contextlib.redirect_stdout(io.StringIO()), contextlib.redirect_stderr(io.StringIO()):
            ex = Extractor(d)
            ex.parse()
            rules_map, zones_map, links_map = ex.get_data()
            in_zones, in_links, in_rules = set(zones_map), set(links_map), set(rules_map)
            # independent scan of the source text: a name the Extractor itself loses must still be accounted for
            for line in text.splitlines():
                tok = line.split('#')[0].split()
                if len(tok) >= 2 and tok[0] == 'Zone': in_zones.add(tok[1])
                elif len(tok) >= 3 and tok[0] == 'Link': in_links.add(tok[2])
                elif len(tok) >= 2 and tok[0] == 'Rule': in_rules.add(tok[1])
            tr = Transformer(zones_map, rules_map, links_map, scope, start_year, until_year, until_at_granularity, offset_granularity, strict)
            tr.transform()
            (zones_map, rules_map, links_map, removed_zones, removed_policies, removed_links,
             notable_zones, notable_policies, notable_links, format_strings, zone_strings) = tr.get_data()
            coll = TzDbCollector(tz_version=tz_version, tz_files=Extractor.ZONE_FILES, scope=scope, start_year=start_year, until_year=until_year,
                                 until_at_granularity=until_at_granularity, offset_granularity=offset_granularity, strict=strict,
                                 zones_map=zones_map, links_map=links_map, rules_map=rules_map, removed_zones=removed_zones, removed_links=removed_links,
                                 removed_policies=removed_policies, notable_zones=notable_zones, notable_links=notable_links, notable_policies=notable_policies,
                                 format_strings=format_strings, zone_strings=zone_strings)
            tzdb = coll.get_data()
            zone_infos = zone_policies = None
            if inline:
                zone_infos, zone_policies = InlineGenerator(tzdb['zones_map'], tzdb['rules_map']).generate_maps()
    finally:
        shutil.rmtree(d, ignore_errors=True)
    return Compiled(in_zones=in_zones, in_links=in_links, in_rules=in_rules, zones_map=zones_map, rules_map=rules_map, links_map=links_map,
                    removed_zones=removed_zones, removed_policies=removed_policies, removed_links=removed_links,
                    notable_zones=notable_zones, notable_policies=notable_policies, notable_links=notable_links,
                    tzdb=tzdb, zone_infos=zone_infos, zone_policies=zone_policies, scope=scope, start_year=start_year, until_year=until_year)

def generate(compiled, language, outdir, db_namespace=None, invocation='verif', buf_sizes=None):
    """Write generated files (arduino or python) for a compiled source into outdir."""
    from zonedb.argenerator import ArduinoGenerator
    from zonedb.pygenerator import PythonGenerator
    from zonedb.bufestimator import BufSizeEstimator
    from zonedb.zonelistgenerator import ZoneListGenerator
    tzdb = compiled.tzdb
    with contextlib.redirect_stdout(io.StringIO()), contextlib.redirect_stderr(io.StringIO()):
        if language == 'python':
            PythonGenerator(invocation=invocation, tzdb=tzdb).generate_files(outdir)
        elif language == 'arduino':
            ns = db_namespace or ('zonedb' if tzdb['scope'] == 'basic' else 'zonedbx')
            if buf_sizes is None:
                buf_sizes, max_size = BufSizeEstimator(compiled.zone_infos, compiled.zone_policies, tzdb['start_year'], tzdb['until_year']).estimate()
            ArduinoGenerator(invocation=invocation, db_namespace=ns, generate_zone_strings=False, tzdb=tzdb, buf_sizes=buf_sizes).generate_files(outdir)
        elif language == 'zonelist':
            ZoneListGenerator(invocation=invocation, tzdb=tzdb).generate_files(outdir)
    return outdir

def specifier_table(zone_info, start_year, until_year, **opts):
    """Piecewise-constant table [(start_epoch2000, total_offset_s, dst_s, abbrev)] from ZoneSpecifier.transitions, year by year,
    clipped to each UTC year (the instants a query in that year would be answered from)."""
    from zonedb.zone_specifier import ZoneSpecifier
    import calendar
    zs = ZoneSpecifier(zone_info, **opts)
    out = []
    for y in range(start_year, until_year):
        zs.init_for_year(y)
        # instants served from the table of year y: the UTC year, except that with a window shorter than 14 months
        # ZoneSpecifier._init_for_second() serves Jan 1 (UTC) from the previous year's table
        d0 = 2 if opts.get('viewing_months', 14) < 14 else 1
        y0 = calendar.timegm((y, 1, d0, 0, 0, 0)) - 946684800
        y1 = calendar.timegm((y + 1, 1, d0, 0, 0, 0)) - 946684800
        if d0 == 2 and y == start_year:
            y0 = calendar.timegm((y, 1, 1, 0, 0, 0)) - 946684800    # the first day is only reachable through year y-1; judged from Jan 2
            y0 += 86400
        trs = zs.transitions
        def lookup(t):
            # the scan of ZoneSpecifier._find_transition_for_seconds(), verbatim: the answer changes only at a
            # startEpochSecond, so evaluating it at every start value gives the exact piecewise-constant function even
            # when the list holds zero-length or out-of-order entries
            m = None
            for tr in trs:
                if tr.startEpochSecond <= t:
                    m = tr
                elif tr.startEpochSecond > t:
                    break
            return m
        def row(t0):
            m = lookup(t0)
            return (t0, None, None, None) if m is None else (t0, m.offsetSeconds + m.deltaSeconds, m.deltaSeconds, m.abbrev)
        rows = [row(y0)]
        for b_ in sorted({t.startEpochSecond for t in trs if y0 < t.startEpochSecond < y1}):
            rows.append(row(b_))
        if rows[0][1] is None and len(rows) == 1:
            rows = []
        for r in rows:
            if out and out[-1][1:] == r[1:]:
                continue
            out.append(r)
    return out
