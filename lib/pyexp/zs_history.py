"""C08 (Python side): ZoneSpecifier answers are independent of the order in which years were visited.
One long history per zone visiting every ordered pair of cached-year states; every step is compared
with the same call on a fresh instance."""
import sys, os, calendar, datetime, multiprocessing as mp
import runner
from pyexp import pipeline

YEARS = list(range(1998, 2052))
_G = {}

def _digest(zs):
    return (zs.year, tuple((t.startEpochSecond, t.offsetSeconds, t.deltaSeconds, t.abbrev, tuple(t.startDateTime), tuple(t.untilDateTime)) for t in zs.transitions))

def _apply(zs, kind, y):
    try:
        if kind == 0:
            zs.init_for_year(y)
            return ('year', _digest(zs))
        mo = 1 if y % 2 else 7
        if kind == 1:
            e = calendar.timegm((y, mo, 15, 12, 30, 0)) - 946684800
            return ('secs', tuple(zs.get_timezone_info_for_seconds(e)))
        if kind == 2:
            r = zs.get_timezone_info_for_datetime(datetime.datetime(y, mo, 15, 12, 30, 0))
            return ('dt', tuple(r) if r else None)
        if kind == 3:      # local date-time lookups at the edges of the year (a gap that starts with the year; the 13-month window)
            r = zs.get_timezone_info_for_datetime(datetime.datetime(y, 1, 1, 0, 30, 0)); return ('dt-jan1', tuple(r) if r else None)
        if kind == 4:
            r = zs.get_timezone_info_for_datetime(datetime.datetime(y, 12, 31, 23, 30, 0)); return ('dt-dec31', tuple(r) if r else None)
        if kind == 5:
            e = calendar.timegm((y, 1, 1, 12, 0, 0)) - 946684800
            return ('secs-jan1', tuple(zs.get_timezone_info_for_seconds(e)))
    except Exception as ex:   # whatever a fresh instance does, history must do the same
        return ('exc', type(ex).__name__)

def _zone(arg):
    name, do_main = arg
    from zonedb.zone_specifier import ZoneSpecifier
    zi = _G['infos'][name]
    exp = {}
    def expected(kind, y):
        if (kind, y) not in exp:
            exp[(kind, y)] = _apply(ZoneSpecifier(zi), kind, y)
        return exp[(kind, y)]
    zs = ZoneSpecifier(zi)
    viol, n, hist = [], 0, []
    for i, y1 in enumerate(YEARS if do_main else []):
        for j, y2 in enumerate(YEARS):
            for (k, y) in (((i + j) % 3, y1), ((i + 2 * j + 1) % 3, y2)):
                got = _apply(zs, k, y)
                n += 1
                hist.append((k, y))
                if got != expected(k, y) and len(viol) < 3:
                    viol.append({'zone': name, 'history_tail': hist[-4:], 'got': repr(got)[:300], 'fresh': repr(expected(k, y))[:300]})
    # edge pass, default and 13-month windows: year-edge queries on y with y-1 / y / y+1 cached (by each kind of earlier call)
    for opts in ({}, {'viewing_months': 13}, {'viewing_months': 13, 'in_place_transitions': False, 'optimize_candidates': False}):
        fresh = {}
        def expected2(kind, y):
            if (kind, y) not in fresh:
                fresh[(kind, y)] = _apply(ZoneSpecifier(zi, **opts), kind, y)
            return fresh[(kind, y)]
        zs2 = ZoneSpecifier(zi, **opts)
        for y in range(2000, 2050):
            for prev in (y - 1, y, y + 1):
                for pk in (0, 1, 2):
                    for k in (3, 4, 5):
                        _apply(zs2, pk, prev)
                        got = _apply(zs2, k, y)
                        n += 1
                        if got != expected2(k, y) and len(viol) < 5:
                            viol.append({'zone': name, 'options': opts, 'history_tail': [(pk, prev), (k, y)], 'got': repr(got)[:300], 'fresh': repr(expected2(k, y))[:300]})
    return name, n, viol

def run(zone_infos, names, main_names=None):
    """names: zones for the year-edge pass; main_names (default: all of them): zones that also get the all-ordered-year-pairs pass"""
    _G['infos'] = zone_infos
    main = set(names if main_names is None else main_names)
    with mp.Pool(runner.NCPU) as pool:
        res = pool.map(_zone, [(n, n in main) for n in names], chunksize=1)
    return res
