"""C08 (Python side): ZoneSpecifier answers are independent of the order in which years were visited.
One long history per zone visiting every ordered pair of cached-year states; every step is compared
with the same call on a fresh instance."""
import sys, os, calendar, datetime, multiprocessing as mp
import runner
from pyexp import pipeline

YEARS = list(range(1998, 2052))
_G = {}

def _digest(zs):
    return (zs.year, tuple((t.startEpochSecond, t.offsetSeconds, t.deltaSeconds, t.abbrev, tuple(t.startDateTime), tuple(t.untilDateTime)) for t in zs.transitions))

def _apply(zs, kind, y):
    try:
        if kind == 0:
            zs.init_for_year(y)
            return ('year', _digest(zs))
        mo = 1 if y % 2 else 7
        if kind == 1:
            e = calendar.timegm((y, mo, 15, 12, 30, 0)) - 946684800
            return ('secs', tuple(zs.get_timezone_info_for_seconds(e)))
        r = zs.get_timezone_info_for_datetime(datetime.datetime(y, mo, 15, 12, 30, 0))
        return ('dt', tuple(r) if r else None)
    except Exception as ex:   # whatever a fresh instance does, history must do the same
        return ('exc', type(ex).__name__)

def _zone(name):
    from zonedb.zone_specifier import ZoneSpecifier
    zi = _G['infos'][name]
    exp = {}
    def expected(kind, y):
        if (kind, y) not in exp:
            exp[(kind, y)] = _apply(ZoneSpecifier(zi), kind, y)
        return exp[(kind, y)]
    zs = ZoneSpecifier(zi)
    viol, n, hist = [], 0, []
    for i, y1 in enumerate(YEARS):
        for j, y2 in enumerate(YEARS):
            for (k, y) in (((i + j) % 3, y1), ((i + 2 * j + 1) % 3, y2)):
                got = _apply(zs, k, y)
                n += 1
                hist.append((k, y))
                if got != expected(k, y) and len(viol) < 3:
                    viol.append({'zone': name, 'history_tail': hist[-4:], 'got': repr(got)[:300], 'fresh': repr(expected(k, y))[:300]})
    return name, n, viol

def run(zone_infos, names):
    _G['infos'] = zone_infos
    with mp.Pool(runner.NCPU) as pool:
        res = pool.map(_zone, names, chunksize=1)
    return res
