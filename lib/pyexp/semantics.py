"""Compare what a compiled source means under the Python interpreter (ZoneSpecifier on InlineGenerator maps)
with the zic table of the same source, exactly (piecewise-constant functions), over [start_year, until_year)."""
import calendar, multiprocessing as mp
import runner
from pyexp import pipeline

_G = {}

def _clip(tab, lo, hi):
    """restrict a piecewise table [(start, ...)] to [lo, hi) and merge equal neighbours"""
    out = []
    cur = None
    for row in tab:
        if row[0] <= lo:
            cur = row
    if cur is not None:
        out.append((lo,) + tuple(cur[1:]))
    for row in tab:
        if lo < row[0] < hi:
            if out and out[-1][1:] == tuple(row[1:]):
                continue
            out.append(tuple(row))
    return out

def _one(name):
    zi = _G['infos'][name]
    lo, hi = _G['lo'], _G['hi']
    try:
        st = pipeline.specifier_table(zi, _G['y0'], _G['y1'], **_G['opts'])
    except BaseException as e:   # includes SystemExit raised by the tool on internal errors
        return name, {'error': '%s: %s' % (type(e).__name__, str(e)[:200])}, 0
    mine = _clip([(s, o, 1 if (d or 0) != 0 else 0, a) for (s, o, d, a) in st], lo, hi)
    ref = _clip(_G['zic'][name], lo, hi)
    if mine == ref:
        return name, None, len(ref)
    # first difference
    i = 0
    while i < min(len(mine), len(ref)) and mine[i] == ref[i]:
        i += 1
    return name, {'first_difference_index': i, 'python': mine[i] if i < len(mine) else None, 'zic': ref[i] if i < len(ref) else None,
                  'python_prev': mine[i - 1] if i else None, 'n_python': len(mine), 'n_zic': len(ref)}, len(ref)

def compare(zone_infos, zic_tables, names, start_year, until_year, opts=None):
    _G.update(infos=zone_infos, zic=zic_tables, y0=start_year, y1=until_year, opts=opts or {},
              lo=calendar.timegm((start_year, 1, 1, 0, 0, 0)) - 946684800, hi=calendar.timegm((until_year, 1, 1, 0, 0, 0)) - 946684800)
    with mp.Pool(runner.NCPU) as pool:
        return pool.map(_one, names, chunksize=4)

def accounting(comp):
    """every input zone / link / policy is emitted or removed with a non-empty reason, never both, never neither"""
    bad = []
    for kind, inp, kept, removed in (('zone', comp.in_zones, comp.zones_map, comp.removed_zones), ('link', comp.in_links, comp.links_map, comp.removed_links),
                                     ('policy', comp.in_rules, comp.rules_map, comp.removed_policies)):
        for n in sorted(inp):
            k, r = n in kept, n in removed
            if k and r: bad.append((kind, n, 'both emitted and listed as removed'))
            elif not k and not r: bad.append((kind, n, 'silently dropped'))
            elif r and not [x for x in removed[n] if str(x).strip()]: bad.append((kind, n, 'removed without a reason'))
        for n in sorted(set(kept) - set(inp)):
            bad.append((kind, n, 'emitted but not in the input'))
    return bad
