"""C04 (Python side): ZoneSpecifier vs the C++ extended processor on the same zone data."""
import struct, calendar, datetime, itertools, multiprocessing as mp
import runner
from pyexp import pipeline

OPTS = [dict(viewing_months=v, optimize_candidates=o, in_place_transitions=i) for v in (14, 13) for o in (True, False) for i in (True, False)]
_G = {}
LOC = struct.Struct('<iqi')

def decode_to_python(dump):
    """tabledump output -> {name: ZoneInfo dict} in the tools' data model (what InlineGenerator would hand to ZoneSpecifier)"""
    pol_cache = {}
    def ty(v, lo, hi):
        return lo if v == -127 else (hi if v == 126 else v + 2000)
    def policy(addr):
        if addr not in pol_cache:
            p = dump['policies'][addr]
            pol_cache[addr] = {'name': 'P%d' % addr, 'rules': [
                {'fromYear': ty(r['fromYearTiny'], 0, 9999), 'toYear': ty(r['toYearTiny'], 0, 9999), 'inMonth': r['inMonth'], 'onDayOfWeek': r['onDayOfWeek'], 'onDayOfMonth': r['onDayOfMonth'],
                 'atSeconds': r['atTimeMinutes'] * 60, 'atTimeSuffix': r['atTimeSuffix'], 'deltaSeconds': r['deltaMinutes'] * 60, 'letter': r['letter']} for r in p['rules']]}
        return pol_cache[addr]
    out = {}
    for z in dump['zones']:
        eras = []
        for e in z['eras']:
            eras.append({'offsetSeconds': e['offsetMinutes'] * 60, 'zonePolicy': policy(e['policy']) if e['policy'] else ('-' if e['deltaMinutes'] == 0 else ':'),
                         'rulesDeltaSeconds': e['deltaMinutes'] * 60 if not e['policy'] else 0, 'format': e['format'].replace('%', '%s'),
                         'untilYear': 10000 if e['untilYearTiny'] == 127 else e['untilYearTiny'] + 2000, 'untilMonth': e['untilMonth'], 'untilDay': e['untilDay'],
                         'untilSeconds': e['untilTimeMinutes'] * 60, 'untilTimeSuffix': e['untilTimeSuffix']})
        out[z['name']] = {'name': z['name'], 'eras': eras}
    return out

def load_cxx(prefix, nshards):
    tabs, cur = {}, None
    locs = []
    for i in range(nshards):
        for line in open('%s.%d.brk' % (prefix, i)):
            if line[0] == 'Z':
                cur = tabs.setdefault(line.split()[1], [])
            elif line[0] == 'O':
                cur.append('over-capacity')
            else:
                _, s, o, d, a = line.split()
                cur.append((int(s), int(o), int(d), '' if a == '""' else a))
        with open('%s.%d.loc' % (prefix, i), 'rb') as f:
            locs.append(f.read())
    return tabs, locs

def _zone(args):
    name, zidx = args
    from zonedb.zone_specifier import ZoneSpecifier
    zi = _G['infos'][name]; cxx = _G['cxx'][name]; y0, y1 = _G['y0'], _G['y1']
    lo = cxx[0][0]; hi = calendar.timegm((y1, 1, 1, 0, 0, 0)) - 946684800
    viol, n_tab, n_q, n_loc = [], 0, 0, 0
    tables = []
    for opt in OPTS:
        try:
            st = pipeline.specifier_table(zi, y0, y1, **opt)
        except BaseException as e:
            viol.append(('python-raised', {'zone': name, 'options': opt, 'error': '%s %s' % (type(e).__name__, str(e)[:100])})); continue
        rows = [(s, o, d, a) for (s, o, d, a) in st if s < hi]   # a 13-month table of the last year reaches one day past the range: not compared
        # merge rows equal in (offset, dst offset, abbrev)
        m = []
        for r in rows:
            if m and m[-1][1:] == r[1:]:
                continue
            m.append(r)
        tables.append((opt, m)); n_tab += 1
        ref = cxx
        if m and m[0][0] != cxx[0][0]:
            # 13-month window: the first UTC day of the range is served from the year before the range; compare from the first covered instant
            s0 = m[0][0]
            cur0 = [r for r in cxx if r[0] <= s0][-1]
            ref = [(s0,) + tuple(cur0[1:])] + [r for r in cxx if r[0] > s0]
        if m != ref:
            cxx_ = ref
            i = 0
            while i < min(len(m), len(cxx_)) and m[i] == cxx_[i]:
                i += 1
            viol.append(('table-differs', {'zone': name, 'options': opt, 'index': i, 'python': m[i] if i < len(m) else None, 'cxx': cxx_[i] if i < len(cxx_) else None}))
    # direct queries with default options + the most different option set
    def at(t):
        cur = cxx[0]
        for r in cxx:
            if r[0] <= t: cur = r
            else: break
        return cur[1:]
    pts = set()
    for r in cxx[1:]:
        pts.update((r[0] - 1, r[0], r[0] + 1))
    g = _G['grid']
    pts.update(range(lo + (zidx * 3600) % g, hi, g))
    for opt in (OPTS[0], OPTS[-1]):
        zs = ZoneSpecifier(zi, **opt)
        for t in sorted(pts):
            if not (lo <= t < hi): continue
            try:
                r_ = zs.get_timezone_info_for_seconds(t)
                got = (r_[0], r_[2], r_[3])
            except BaseException as e:
                got = ('exc', type(e).__name__, '')
            n_q += 1
            if got != at(t) and len(viol) < 6:
                viol.append(('seconds-query-differs', {'zone': name, 'options': opt, 'epochSeconds': t, 'python': got, 'cxx': at(t)}))
    # local date-times
    zs = [ZoneSpecifier(zi, **OPTS[0])] + ([ZoneSpecifier(zi, **o) for o in OPTS[1:]] if _G['all_opts_local'] else [ZoneSpecifier(zi, **OPTS[-1])])
    e0 = datetime.datetime(2000, 1, 1)
    for buf in _G['locs']:
        for (zi_, L, sel) in LOC.iter_unpack(buf):
            if zi_ != zidx: continue
            dt = e0 + datetime.timedelta(seconds=L)
            for k, z in enumerate(zs):
                try:
                    info = z.get_timezone_info_for_datetime(dt)
                    got = info[0] if info else None
                except BaseException as e:
                    got = 'exc:' + type(e).__name__
                n_loc += 1
                if got != (None if sel == -2**31 else sel) and len(viol) < 8:
                    viol.append(('local-time-selection-differs', {'zone': name, 'local': dt.isoformat(), 'python_total_offset': got, 'cxx_selected_offset': sel, 'option_set': k}))
    return name, viol, n_tab, n_q, n_loc, len(cxx)

def compare(zone_infos, cxx_tabs, locs, names, y0, y1, grid, all_opts_local):
    _G.update(infos=zone_infos, cxx=cxx_tabs, locs=locs, y0=y0, y1=y1, grid=grid, all_opts_local=all_opts_local)
    # split local-time buffers per zone index for speed
    per = {}
    for buf in locs:
        for rec in LOC.iter_unpack(buf):
            per.setdefault(rec[0], bytearray()).extend(LOC.pack(*rec))
    _G['per'] = per
    with mp.Pool(runner.NCPU) as pool:
        return pool.map(_zone_fast, [(n, i) for i, n in names], chunksize=2)

def _zone_fast(args):
    name, zidx = args
    buf = _G['per'].get(zidx, b'')
    saved = _G['locs']; _G['locs'] = [bytes(buf)]
    try:
        return _zone(args)
    finally:
        _G['locs'] = saved
