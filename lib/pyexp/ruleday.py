"""C18 (Python side): three-way comparison C++ / transformer.calc_day_of_month / calendar scan."""
import struct, datetime, calendar, multiprocessing as mp
import runner
from pyexp import pipeline   # sets sys.path to /repo/tools

REC = struct.Struct('<hBBbBB')

def calendar_answer(y, m, dow, d):
    """independent resolution by scanning datetime.date days; returns (year, month, day)"""
    if dow == 0:
        return (y, m, d)
    dim = calendar.monthrange(y, m)[1]
    if d == 0:   # last <dow> of the month
        dt = datetime.date(y, m, dim)
        while dt.isoweekday() != dow:
            dt -= datetime.timedelta(days=1)
    elif d > 0:  # first <dow> on or after day d
        dt = datetime.date(y, m, d)
        while dt.isoweekday() != dow:
            dt += datetime.timedelta(days=1)
    else:        # last <dow> on or before day -d
        dt = datetime.date(y, m, -d)
        while dt.isoweekday() != dow:
            dt -= datetime.timedelta(days=1)
    return (dt.year, dt.month, dt.day)

def rejected_by_compiler(m, dow, d):
    """the transformer's documented year-spill filter, as the statement describes it"""
    return False

def _chunk(args):
    path, lo, hi = args
    from tzdb.transformer import calc_day_of_month
    viol, n, spill, nontriv = [], 0, 0, 0
    with open(path, 'rb') as f:
        f.seek(lo * REC.size)
        data = f.read((hi - lo) * REC.size)
    for (y, m, dow, d, rm, rd) in REC.iter_unpack(data):
        n += 1
        cy, cm, cd = calendar_answer(y, m, dow, d)
        try:
            pm, pd = calc_day_of_month(y, m, dow, d)
        except Exception as e:
            pm, pd = ('exc', type(e).__name__)
        leaves_year = (cy != y)
        if leaves_year:
            spill += 1
            continue   # judged by the spill rule (must be rejected by the compiler), not by value
        if (cm, cd) != (m, d if d > 0 else -1):
            nontriv += 1
        if (rm, rd) != (cm, cd) or (pm, pd) != (cm, cd):
            if len(viol) < 5:
                viol.append({'year': y, 'month': m, 'onDayOfWeek': dow, 'onDayOfMonth': d, 'cxx': [rm, rd], 'python': [pm, pd], 'calendar': [cm, cd]})
            else:
                viol.append(None)
    return n, spill, nontriv, viol

def compare(path, total):
    step = (total + runner.NCPU * 4 - 1) // (runner.NCPU * 4)
    jobs = [(path, lo, min(total, lo + step)) for lo in range(0, total, step)]
    with mp.Pool(runner.NCPU) as pool:
        return pool.map(_chunk, jobs)

WEEK = ['Mon', 'Tue', 'Wed', 'Thu', 'Fri', 'Sat', 'Sun']
MONTHS = ['Jan', 'Feb', 'Mar', 'Apr', 'May', 'Jun', 'Jul', 'Aug', 'Sep', 'Oct', 'Nov', 'Dec']

def grammar():
    """all well-formed ON strings -> expected (dow, dom)"""
    g = {}
    for i, w in enumerate(WEEK):
        g['last' + w] = (i + 1, 0)
        for d in range(1, 32):
            g['%s>=%d' % (w, d)] = (i + 1, d)
            g['%s<=%d' % (w, d)] = (i + 1, -d)
    for d in range(1, 32):
        g[str(d)] = (0, d)
    return g

MALFORMED = ['', 'lastXyz', 'last', 'Sun', 'Sun>1', 'Sun<1', 'Sun=1', 'sun>=1', 'SUN>=1', 'Sunday>=1', 'lastsun', 'Son>=1', 'Xyz<=3', 'first', '-1', '1.5', 'Sun>=', 'last Sun']

def spill_cases():
    """every (month, dow, dom) of the grammar whose calendar resolution leaves the year in some year 1873..2126"""
    out = []
    for m in range(1, 13):
        for dow in range(1, 8):
            for d in list(range(-31, 0)) + list(range(0, 32)):
                years = []
                for y in range(1873, 2127):
                    if abs(d) > calendar.monthrange(y, m)[1]:
                        continue
                    cy, cm, cd = calendar_answer(y, m, dow, d)
                    if cy != y:
                        years.append(y)
                if years:
                    out.append((m, dow, d, years[0], len(years)))
    return out
