"""C12(a): synthetic TZ source covering the full product of encodable field values."""
MONTHS = ['Jan', 'Feb', 'Mar', 'Apr', 'May', 'Jun', 'Jul', 'Aug', 'Sep', 'Oct', 'Nov', 'Dec']
WEEK = ['Mon', 'Tue', 'Wed', 'Thu', 'Fri', 'Sat', 'Sun']
DIM = [31, 28, 31, 30, 31, 30, 31, 31, 30, 31, 30, 31]

def hm(minutes, colon=True):
    sign = '-' if minutes < 0 else ''
    a = abs(minutes)
    return '%s%d:%02d' % (sign, a // 60, a % 60)

def on_values():
    """all admitted ON expressions per month (month index 0..11) -> list of strings"""
    out = {}
    for m in range(12):
        v = [str(d) for d in range(1, DIM[m] + 1)]
        for w in WEEK:
            v.append('last' + w)
            for d in range(1, DIM[m] + 1):
                if not (m == 11 and d >= 26):
                    v.append('%s>=%d' % (w, d))
                if not (m == 0 and d <= 7):
                    v.append('%s<=%d' % (w, d))
        out[m] = v
    return out

def build(scope):
    ext = scope == 'extended'
    at_values = [(t, s) for t in range(0, 1501) for s in 'wsu'] if ext else [(t, s) for t in range(0, 1501, 1) for s in 'wsu']
    saves = [m for m in range(-60, 166, 15)] if ext else [0, 60, 30, 120, 20 * 0 + 90]
    singles = ['-'] + [chr(c) for c in range(ord('A'), ord('Z') + 1)] + [chr(c) for c in range(ord('a'), ord('z') + 1)]
    onv = on_values()
    oncur = {m: 0 for m in range(12)}
    lines, npol = [], 0
    per = 12 if ext else 2
    months_for = (lambda j: j) if ext else (lambda j: [2, 9][j])
    i = 0
    while i < len(at_values):
        name = 'A%d' % npol
        # policies sharing a multi-character letter at DIFFERENT positions of their sorted letter lists ('ST' is first in
        # ['ST','ZT'], second in ['DT','ST'], third in ['AT','DT','ST']): a letter index is per policy, not per string
        multi = ['L%02dx' % q for q in range(1, 33)] if npol % 40 == 7 else ([] if npol % 3 else [['ST', 'DT'], ['ST', 'ZT'], ['AT', 'DT', 'ST']][(npol // 3) % 3])
        for j in range(per):
            if i >= len(at_values):
                break
            t, s = at_values[i]; i += 1
            m = months_for(j)
            on = onv[m][oncur[m] % len(onv[m])]; oncur[m] += 1
            save = saves[(npol + j) % len(saves)] if (j % 2 == 1) else 0
            frm = 2000 + (npol * 7 + j) % 49          # 2000..2048: inside the compiled window, so the rule is kept
            to = ['max', 'only', str(min(2087, frm + 1 + (npol + j) % 30))][(npol + j) % 3] if j else 'max'
            if j == 0: frm = 1980 + npol % 19          # a guaranteed prior rule
            if multi and j < len(multi) + 0 and ext:
                letter = multi[(j + npol) % len(multi)] if len(multi) < 32 else multi[(j * 3 + npol) % 32]
            else:
                letter = singles[(npol * per + j) % len(singles)]
            if not ext and len(letter) > 1: letter = 'S'
            lines.append('Rule\t%s\t%d\t%s\t-\t%s\t%s\t%s%s\t%s\t%s' % (name, frm, to, MONTHS[m], on, hm(t), '' if s == 'w' else s, hm(save) if save else '0', letter))
        if len(multi) == 32 and ext:
            # make sure all 32 multi-character letters of this policy are used
            for q, L in enumerate(multi):
                lines.append('Rule\t%s\t%d\tonly\t-\t%s\t%d\t3:00\t0\t%s' % (name, 2001 + q, MONTHS[q % 12], 1 + q % 28, L))
        npol += 1
    # zones: one single-era zone per policy (so that every rule of 2000..2049 stays in use), then multi-era zones for the era fields
    stdoffs = list(range(-720, 841)) if ext else list(range(-720, 841, 15))
    until_times = [(t, s) for t in range(0, 1501) for s in 'wsu'] if ext else [(0, 'w')]
    fixed = [(d, r) for d in range(-60, 166, 15) for r in range(15)] if ext else [(0, 0)]
    zl = []
    so = ut = fx = 0
    for k in range(npol):
        off = stdoffs[so % len(stdoffs)]; so += 1
        zl.append('Zone\tV/P%d\t%s\tA%d\t%s' % (k, hm(off), k, 'F%sT' if k % 2 else 'S/D'))
    need = max(len(stdoffs), (len(until_times) + 8) // 9 * 10, len(fixed) * 4) if ext else 4 * len(stdoffs)
    k = e = 0
    while e < need:
        zname = 'V/E%d' % k
        for j in range(10 if ext else 4):
            off = stdoffs[so % len(stdoffs)]; so += 1
            if j % 3 == 1 and ext:
                d, r = fixed[fx % len(fixed)]; fx += 1
                off = off - (off % 15) + r
                rules = hm(d) if d else '-'; fmt = 'X%02d' % j
            else:
                rules = '-'; fmt = '%+03d' % (off // 60)
            body = '%s\t%s\t%s' % (hm(off), rules, fmt)
            if j < (9 if ext else 3):
                if ext:
                    year = 2001 + 5 * j + (k % 5)
                    t, s = until_times[ut % len(until_times)]; ut += 1
                    mon = (k + j) % 12; day = 1 + (k * 3 + j) % DIM[mon]
                    body += '\t%d %s %d %s%s' % (year, MONTHS[mon], day, hm(t), '' if s == 'w' else s)
                else:
                    body += '\t%d' % (2003 + 15 * j + (k % 13))
            zl.append(('Zone\t%s\t' % zname if j == 0 else '\t\t\t') + body)
            e += 1
        k += 1
    return '\n'.join(lines) + '\n' + '\n'.join(zl) + '\n', dict(policies=npol, zones=k + npol, at_values=len(at_values), stdoffs=len(stdoffs), until_times=len(until_times), fixed_delta_combos=len(fixed))
