"""C19: the reference-data generators (compare_pytz / compare_dateutil TestDataGenerator) bracket every
transition of the third-party library, and every item equals a fresh query of the library."""
import os, sys, calendar, datetime, multiprocessing as mp
import runner
from pyexp import pipeline   # puts /repo/tools on sys.path

UNIX = 946684800
_G = {}

def _lib_transitions_pytz(tz):
    import pytz
    tt = getattr(tz, '_utc_transition_times', None)
    if not tt:
        return []
    info = tz._transition_info
    out = []
    for i in range(1, len(tt)):
        if tt[i].year < 1900:
            continue
        t = calendar.timegm(tt[i].timetuple())
        out.append((t, info[i - 1], info[i]))
    return out

def _check_zone_pytz(args):
    name, ranges, interval, detect_dst = args
    import pytz
    from compare_pytz.tdgenerator import TestDataGenerator
    tz = pytz.timezone(name)
    trans = _lib_transitions_pytz(tz)
    viol, stats = [], dict(runs=0, items=0, transitions_required=0, transitions_too_close_not_claimed=0, samples_required=0)
    iv = interval * 3600
    for (y0, y1) in ranges:
        if (y0, y1) == tuple(ranges[0]):
            # state kept between generator objects in one process (module-level caches and the like) must not leak: an earlier
            # generator with the opposite DST-detection setting runs over the same zone and range first, its output is discarded
            try:
                TestDataGenerator(y0, y1, interval, not detect_dst)._create_test_items_for_zone(name)
            except Exception:
                pass
        g = TestDataGenerator(y0, y1, interval, detect_dst)
        try:
            items = g._create_test_items_for_zone(name)
        except Exception as e:
            viol.append(('generator-raised', {'zone': name, 'range': [y0, y1], 'error': '%s: %s' % (type(e).__name__, str(e)[:150])})); continue
        stats['runs'] += 1
        by_epoch = {it['epoch']: it for it in items}
        stats['items'] += len(items)
        lo, hi = calendar.timegm((y0, 1, 1, 0, 0, 0)), calendar.timegm((y1, 1, 1, 0, 0, 0))
        # (1) completeness against the library's own transition table
        for k, (t, before, after) in enumerate(trans):
            if not (lo < t < hi):
                continue
            # what the library exhibits through its public API just before and at the candidate instant
            b_ = datetime.datetime.fromtimestamp(t - 1, tz); a_ = datetime.datetime.fromtimestamp(t, tz)
            off_changed = b_.utcoffset() != a_.utcoffset()
            dst_changed = b_.dst() != a_.dst()
            if not (off_changed or (detect_dst and dst_changed)):
                continue
            near = [u for (u, _, _) in trans if u != t and abs(u - t) < iv]
            if near:
                stats['transitions_too_close_not_claimed'] += 1
                continue
            stats['transitions_required'] += 1
            l, r = by_epoch.get(t - 60 - UNIX), by_epoch.get(t - UNIX)
            want = ('A', 'B') if off_changed else ('a', 'b')
            if l is None or r is None or l['type'] != want[0] or r['type'] != want[1]:
                viol.append(('transition-not-bracketed', {'library': 'pytz', 'zone': name, 'start_year': y0, 'until_year': y1, 'sampling_interval_h': interval,
                             'transition_utc': datetime.datetime.utcfromtimestamp(t).isoformat(), 'left_item': l and l['type'], 'right_item': r and r['type']}))
        # (2) monthly and year-end samples
        for y in range(y0, y1):
            for (mo, d, h, mi) in [(m, 1, 0, 0) for m in range(1, 13)] + [(12, 31, 23, 59)]:
                stats['samples_required'] += 1
                dt = tz.normalize(tz.localize(datetime.datetime(y, mo, d, h, mi, 0)))
                e = int(dt.timestamp()) - UNIX
                if e not in by_epoch:
                    viol.append(('sample-missing', {'library': 'pytz', 'zone': name, 'range': [y0, y1], 'wall': [y, mo, d, h, mi]}))
        # (3) every item equals a fresh query of the library
        for it in items:
            dt = datetime.datetime.fromtimestamp(it['epoch'] + UNIX, tz)
            exp = (int(dt.utcoffset().total_seconds()), int(dt.dst().total_seconds()), dt.year, dt.month, dt.day, dt.hour, dt.minute, dt.second, dt.tzname())
            got = (it['total_offset'], it['dst_offset'], it['y'], it['M'], it['d'], it['h'], it['m'], it['s'], it['abbrev'])
            if exp != got:
                viol.append(('item-differs-from-library', {'library': 'pytz', 'zone': name, 'epoch': it['epoch'], 'item': got, 'library_says': exp})); break
        # sorted, unique epochs
        eps = [it['epoch'] for it in items]
        if eps != sorted(set(eps)):
            viol.append(('items-not-sorted-unique', {'zone': name, 'range': [y0, y1]}))
    return name, viol[:6], len(viol), stats

def _check_zone_dateutil(args):
    name, ranges, interval, detect_dst = args
    from dateutil.tz import gettz, UTC
    from compare_dateutil.tdgenerator import TestDataGenerator
    tz = gettz(name)
    if tz is None:
        return name, [], 0, dict(runs=0, items=0, transitions_required=0, transitions_too_close_not_claimed=0, samples_required=0)
    # dateutil's own transition table (tzfile): _trans_list_utc + _trans_idx
    tl = list(getattr(tz, '_trans_list_utc', []) or [])
    ti = list(getattr(tz, '_trans_idx', []) or [])
    trans = []
    for i in range(1, len(tl)):
        a, b = ti[i - 1], ti[i]
        trans.append((tl[i], (a.offset, a.dstoffset), (b.offset, b.dstoffset)))
    viol, stats = [], dict(runs=0, items=0, transitions_required=0, transitions_too_close_not_claimed=0, samples_required=0)
    iv = interval * 3600
    for (y0, y1) in ranges:
        if (y0, y1) == tuple(ranges[0]):
            # state kept between generator objects in one process (module-level caches and the like) must not leak: an earlier
            # generator with the opposite DST-detection setting runs over the same zone and range first, its output is discarded
            try:
                TestDataGenerator(y0, y1, interval, not detect_dst)._create_test_items_for_zone(name)
            except Exception:
                pass
        g = TestDataGenerator(y0, y1, interval, detect_dst)
        try:
            items = g._create_test_items_for_zone(name)
        except Exception as e:
            viol.append(('generator-raised', {'library': 'dateutil', 'zone': name, 'range': [y0, y1], 'error': '%s: %s' % (type(e).__name__, str(e)[:150])})); continue
        stats['runs'] += 1; stats['items'] += len(items)
        by_epoch = {it['epoch']: it for it in items}
        lo, hi = calendar.timegm((y0, 1, 1, 0, 0, 0)), calendar.timegm((y1, 1, 1, 0, 0, 0))
        for (t, before, after) in trans:
            if not (lo < t < hi) or t > 2**31 - 1:
                continue
            b_ = datetime.datetime.fromtimestamp(t - 1, UTC).astimezone(tz); a_ = datetime.datetime.fromtimestamp(t, UTC).astimezone(tz)
            off_changed = b_.utcoffset() != a_.utcoffset()
            dst_changed = b_.dst() != a_.dst()
            if not (off_changed or (detect_dst and dst_changed)):
                continue
            if [u for (u, _, _) in trans if u != t and abs(u - t) < iv]:
                stats['transitions_too_close_not_claimed'] += 1; continue
            stats['transitions_required'] += 1
            l, r = by_epoch.get(t - 60 - UNIX), by_epoch.get(t - UNIX)
            want = ('A', 'B') if off_changed else ('a', 'b')
            if l is None or r is None or l['type'] != want[0] or r['type'] != want[1]:
                viol.append(('transition-not-bracketed', {'library': 'dateutil', 'zone': name, 'start_year': y0, 'until_year': y1, 'sampling_interval_h': interval,
                             'transition_utc': datetime.datetime.utcfromtimestamp(t).isoformat(), 'left_item': l and l['type'], 'right_item': r and r['type']}))
        for it in items:
            dt = datetime.datetime.fromtimestamp(it['epoch'] + UNIX, UTC).astimezone(tz)
            exp = (int(dt.utcoffset().total_seconds()), int(dt.dst().total_seconds()), dt.year, dt.month, dt.day, dt.hour, dt.minute, dt.second, dt.tzname())
            got = (it['total_offset'], it['dst_offset'], it['y'], it['M'], it['d'], it['h'], it['m'], it['s'], it['abbrev'])
            if exp != got:
                viol.append(('item-differs-from-library', {'library': 'dateutil', 'zone': name, 'epoch': it['epoch'], 'item': got, 'library_says': exp})); break
        stats['samples_required'] += 13 * (y1 - y0)
        n_s = sum(1 for it in items if it['type'] in ('S', 'Y'))
        if len(items) < 13 * (y1 - y0) - 4 * (y1 - y0):   # collisions with transition items may replace a few tags, never remove epochs
            viol.append(('samples-missing', {'library': 'dateutil', 'zone': name, 'range': [y0, y1], 'items': len(items)}))
    return name, viol[:6], len(viol), stats

def run_pool(fn, jobs):
    with mp.Pool(runner.NCPU) as pool:
        return pool.map(fn, jobs, chunksize=1)
