"""C03 S3: bounded mutation family of TZ sources, enumerated exhaustively (no sampling).
A seed is a small structured zone (+ policy); an operator changes one field of one rule or era to each value
of a boundary set (1 deviation); the 2-deviation family combines the operators that touch the year filters."""
import copy, itertools

def R(frm, to, mon, on, at, save, letter):
    return dict(frm=frm, to=to, mon=mon, on=on, at=at, save=save, letter=letter)

def E(stdoff, rules, fmt, until=None):
    return dict(stdoff=stdoff, rules=rules, fmt=fmt, until=until)

US = [R(1967, 2006, 'Oct', 'lastSun', '2:00', '0', 'S'), R(1987, 2006, 'Apr', 'Sun>=1', '2:00', '1:00', 'D'),
      R(2007, 'max', 'Mar', 'Sun>=8', '2:00', '1:00', 'D'), R(2007, 'max', 'Nov', 'Sun>=1', '2:00', '0', 'S')]
AU = [R(1987, 2007, 'Oct', 'lastSun', '2:00s', '1:00', 'D'), R(1996, 2007, 'Mar', 'lastSun', '2:00s', '0', 'S'),
      R(2008, 'max', 'Apr', 'Sun>=1', '2:00s', '0', 'S'), R(2008, 'max', 'Oct', 'Sun>=1', '2:00s', '1:00', 'D')]
EU = [R(1981, 'max', 'Mar', 'lastSun', '1:00u', '1:00', 'S'), R(1996, 'max', 'Oct', 'lastSun', '1:00u', '0', '-')]
EIRE = [R(1981, 'max', 'Mar', 'lastSun', '1:00u', '0', '-'), R(1996, 'max', 'Oct', 'lastSun', '1:00u', '-1:00', '-')]
MULTI = [R(1990, 'max', 'Apr', 'Fri<=7', '24:00', '1:00', 'DST'), R(1990, 'max', 'Sep', 'Sun>=15', '0:01', '0', 'STD')]
ODD = [R(1995, 2010, 'Mar', '28', '23:59', '0:30', 'H'), R(1995, 2010, 'Oct', '1', '0:00', '0', 'N'), R(2011, 'max', 'Feb', 'lastSat', '3:00', '2:00', 'X'), R(2011, 'max', 'Aug', 'Sat>=8', '3:00s', '0', 'N')]

SEEDS = [
    dict(name='fixed', rules=[], eras=[E('5:30', '-', 'IST')]),
    dict(name='us', rules=US, eras=[E('-8:00', 'P', 'P%sT')]),
    dict(name='au', rules=AU, eras=[E('10:00', 'P', 'AE%sT')]),
    dict(name='eu', rules=EU, eras=[E('1:00', 'P', 'CE%sT')]),
    dict(name='eire', rules=EIRE, eras=[E('1:00', 'P', 'IST/GMT')]),
    dict(name='multi', rules=MULTI, eras=[E('-3:30', 'P', 'N%s')]),
    dict(name='odd', rules=ODD, eras=[E('5:45', 'P', '+0545/+06')]),
    dict(name='eras', rules=US, eras=[E('-7:00', 'P', 'M%sT', ('2004', 'Apr', '4', '2:00')), E('-6:00', '-', 'CST', ('2011', 'Oct', '30', '2:00s')), E('-5:00', '1:00', 'EDT', ('2020', 'Jan', '1', '0:00u')), E('-5:00', 'P', 'E%sT')]),
    dict(name='eras2', rules=EU, eras=[E('2:00', 'P', 'EE%sT', ('2003',)), E('3:00', '-', 'MSK', ('2014', 'Mar')), E('2:00', 'P', 'EE%sT', ('2022', 'Jun', '15')), E('3:00', '-', '+03')]),
    dict(name='half', rules=AU, eras=[E('9:30', 'P', 'AC%sT', ('2012', 'Dec', '31', '24:00')), E('10:30', 'P', '+1030/+1130')]),
]

YEARS = ['1998', '1999', '2000', '2001', '2002', '2009', '2010', '2011', '2029', '2030', '2031', '2037', '2038', '2039', '2048', '2049', '2050', '2051']
AT_SET = [t + s for t in ('0:00', '0:01', '2:00', '23:59', '24:00') for s in ('', 's', 'u')]
ON_SET = ['1', '15', '28', 'lastSun', 'lastMon', 'Sun>=1', 'Sun>=8', 'Sat>=22', 'Fri<=8', 'Mon<=28', 'Sun<=14']
SAVE_SET = ['-1:00', '-0:30', '0', '0:15', '0:30', '1:00', '1:30', '2:00', '2:45']
STDOFF_SET = ['-12:00', '-9:30', '-3:30', '-0:30', '-0:01', '0:00', '0:01', '5:45', '8:45', '12:45', '14:00']
UNTIL_TAILS = [(), ('Jan',), ('Feb', '29'), ('Mar', 'lastSun'), ('Jun', '15', '0:00'), ('Oct', 'Sun>=1', '2:00s'), ('Dec', '31', '24:00'), ('Jan', '1', '0:01u'), ('Jul', '1', '23:59')]

def render(seed, idx):
    """-> (text, zone_name, policy_name)"""
    z, p = 'M/z%d' % idx, 'Q%d' % idx
    lines = []
    for r in seed['rules']:
        to = r['to'] if r['to'] in ('max', 'only') else str(r['to'])
        lines.append('Rule\t%s\t%s\t%s\t-\t%s\t%s\t%s\t%s\t%s' % (p, r['frm'], to, r['mon'], r['on'], r['at'], r['save'], r['letter']))
    for j, e in enumerate(seed['eras']):
        body = '%s\t%s\t%s' % (e['stdoff'], p if e['rules'] == 'P' else e['rules'], e['fmt'])
        if e['until']:
            body += '\t' + ' '.join(e['until'])
        lines.append(('Zone\t%s\t' % z if j == 0 else '\t\t\t') + body)
    return '\n'.join(lines), z, p

def _oracle_ok(rule):
    """zic 2.36 writes an inconsistent TZif (explicit transitions stop at the last finite rule year, footer assumes the
    final state) when a rule *ends* in a finite year after 2036 while another rule of the policy continues; such
    sources are outside what the oracle can judge and are not generated."""
    to = rule['to']
    last = int(rule['frm']) if to == 'only' else (9999 if to == 'max' else int(to))
    return last == 9999 or last <= 2036

def one_deviation(seed):
    """yield (description, mutated seed)"""
    for i, r in enumerate(seed['rules']):
        for y in YEARS:
            m = copy.deepcopy(seed); m['rules'][i]['frm'] = int(y)
            if m['rules'][i]['to'] not in ('max', 'only') and int(m['rules'][i]['to']) < int(y): m['rules'][i]['to'] = 'only'
            if not _oracle_ok(m['rules'][i]): continue
            yield 'rule%d.FROM=%s' % (i, y), m
        for t in ['only', 'max'] + YEARS:
            m = copy.deepcopy(seed)
            if t not in ('only', 'max') and int(t) < int(m['rules'][i]['frm']): continue
            m['rules'][i]['to'] = t
            if not _oracle_ok(m['rules'][i]): continue
            yield 'rule%d.TO=%s' % (i, t), m
        for v in AT_SET:
            m = copy.deepcopy(seed); m['rules'][i]['at'] = v; yield 'rule%d.AT=%s' % (i, v), m
        for v in ON_SET:
            m = copy.deepcopy(seed); m['rules'][i]['on'] = v; yield 'rule%d.ON=%s' % (i, v), m
        for v in SAVE_SET:
            m = copy.deepcopy(seed); m['rules'][i]['save'] = v; yield 'rule%d.SAVE=%s' % (i, v), m
        for v in ('Jan', 'Feb', 'Jun', 'Dec'):
            m = copy.deepcopy(seed); m['rules'][i]['mon'] = v
            if v == 'Jan' and '<=' in m['rules'][i]['on']: continue
            if v == 'Dec' and '>=' in m['rules'][i]['on'] and int(m['rules'][i]['on'].split('>=')[1]) >= 26: continue
            yield 'rule%d.IN=%s' % (i, v), m
    for j, e in enumerate(seed['eras']):
        for v in STDOFF_SET:
            m = copy.deepcopy(seed); m['eras'][j]['stdoff'] = v; yield 'era%d.STDOFF=%s' % (j, v), m
        if e['until']:
            for y in YEARS:
                for tail in (UNTIL_TAILS if j == 0 else UNTIL_TAILS[:4]):
                    m = copy.deepcopy(seed); m['eras'][j]['until'] = (y,) + tail
                    yield 'era%d.UNTIL=%s' % (j, ' '.join((y,) + tail)), m
        if e['rules'] == 'P':
            for v in ('-', '1:00', '0:30'):
                m = copy.deepcopy(seed); m['eras'][j]['rules'] = v; m['eras'][j]['fmt'] = 'XXT'
                yield 'era%d.RULES=%s' % (j, v), m

def two_deviations(seed):
    """pairs of year-filter operators: (rule FROM/TO) x (rule FROM/TO of another rule) and x (era UNTIL year)"""
    ys = ['1999', '2000', '2001', '2049', '2050']
    nr = len(seed['rules'])
    for i, k in itertools.combinations(range(nr), 2):
        for a in ys:
            for b in ys:
                m = copy.deepcopy(seed)
                for idx, y in ((i, a), (k, b)):
                    m['rules'][idx]['frm'] = int(y)
                    if m['rules'][idx]['to'] not in ('max', 'only') and int(m['rules'][idx]['to']) < int(y): m['rules'][idx]['to'] = 'only'
                if not all(_oracle_ok(r) for r in m['rules']): continue
                yield 'rule%d.FROM=%s,rule%d.FROM=%s' % (i, a, k, b), m
        for a in ys:
            for b in ['only'] + ys:
                m = copy.deepcopy(seed)
                m['rules'][i]['frm'] = int(a)
                if m['rules'][i]['to'] not in ('max', 'only') and int(m['rules'][i]['to']) < int(a): m['rules'][i]['to'] = 'only'
                if b != 'only' and int(b) < int(m['rules'][k]['frm']): continue
                m['rules'][k]['to'] = b
                if not all(_oracle_ok(r) for r in m['rules']): continue
                yield 'rule%d.FROM=%s,rule%d.TO=%s' % (i, a, k, b), m
    for j, e in enumerate(seed['eras']):
        if not e['until']: continue
        for i in range(nr):
            for a in ys:
                for b in ys:
                    m = copy.deepcopy(seed); m['eras'][j]['until'] = (b,) + tuple(e['until'][1:])
                    m['rules'][i]['frm'] = int(a)
                    if m['rules'][i]['to'] not in ('max', 'only') and int(m['rules'][i]['to']) < int(a): m['rules'][i]['to'] = 'only'
                    if not all(_oracle_ok(r) for r in m['rules']): continue
                    yield 'rule%d.FROM=%s,era%d.UNTIL.year=%s' % (i, a, j, b), m

def family(two=False, seeds=None):
    """-> list of (idx, seed_name, description, text, zone, policy)"""
    out, idx = [], 0
    for s in (seeds or SEEDS):
        gens = [('seed', s)] + list(one_deviation(s)) + (list(two_deviations(s)) if two else [])
        for desc, m in gens:
            text, z, p = render(m, idx)
            out.append((idx, s['name'], desc, text, z, p)); idx += 1
    return out

# ---- era chains: whole-year UNTIL (the only multi-era shape the basic scope admits) x every pairing of RULES kinds
_POL = {'N': US, 'S': AU}
_TAG = {'N': 'N', 'S': 'S', '-': 'F', '1:00': 'H'}

def _era_line(stdoff, rules, k):
    tag = 'E%d%s' % (k, _TAG[rules])
    fmt = (tag + '%sT') if rules in _POL else (tag + 'T')
    if rules == 'S' and k % 2:
        fmt = '+%02d/+%02d' % (10 + k, 11 + k)       # slash format on some named eras
    return '%s\t%s\t%s' % (stdoff, ('K' + rules) if rules in _POL else rules, fmt)

def era_chains():
    """-> (rules_text, [(family, signature, description, zone_text, zone_name)]) — exhaustive products, no sampling:
    chain2: 6 STDOFF pairs x 4x4 RULES kinds x 4 UNTIL years; chain3: 3 STDOFF patterns x 4^3 RULES kinds x 2 UNTIL pairs"""
    rl = []
    for pn, rules in _POL.items():
        for r in rules:
            to = r['to'] if r['to'] in ('max', 'only') else str(r['to'])
            rl.append('Rule\tK%s\t%s\t%s\t-\t%s\t%s\t%s\t%s\t%s' % (pn, r['frm'], to, r['mon'], r['on'], r['at'], r['save'], r['letter']))
    kinds = ['S', 'N', '-', '1:00']
    out = []
    def add(fam, eras, untils):
        z = 'K/c%d' % len(out)
        lines = []
        for k, (so, ru) in enumerate(eras):
            body = _era_line(so, ru, k) + ('\t%s' % untils[k] if k < len(untils) else '')
            lines.append(('Zone\t%s\t' % z if k == 0 else '\t\t\t') + body)
        sig = '>'.join(ru for _, ru in eras) + ('@' + untils[0].split(' ', 1)[1].replace(' ', '_') if fam == 'chain2t' else ('@' + '+'.join(u.replace(' ', '_') for u in untils) if fam == 'chain3t' else ''))
        desc = '%s %s until %s' % (' '.join(so for so, _ in eras), sig, ','.join(untils))
        out.append((fam, sig, desc, '\n'.join(lines), z))
    for a, b in (('9:30', '9:30'), ('9:30', '10:30'), ('10:30', '9:30'), ('-3:30', '-4:30'), ('-4:30', '-3:30'), ('-11:00', '13:00')):
        for r0, r1 in itertools.product(kinds, repeat=2):
            for y in ('2005', '2008', '2012', '2037'):
                add('chain2', [(a, r0), (b, r1)], [y])
    for pat in (('9:30', '10:30', '9:30'), ('-3:30', '-4:30', '-4:30'), ('5:45', '5:45', '6:00')):
        for rs in itertools.product(kinds, repeat=3):
            for ys in (('2008', '2009'), ('2007', '2010')):
                add('chain3', list(zip(pat, rs)), list(ys))
    # chain2t: the same pairings with a month/day/time UNTIL (extended scope only admits them), incl. UNTIL on a rule's own instant
    for a, b in (('9:30', '10:30'), ('-4:30', '-3:30'), ('10:00', '10:00')):
        for r0, r1 in itertools.product(kinds, repeat=2):
            for tail in UNTIL_TAILS[1:] + [('Apr', 'Sun>=1', '2:00s'), ('Apr', 'Sun>=1', '3:00'), ('Mar', 'Sun>=8', '2:00'), ('Nov', 'Sun>=1', '2:00'), ('Nov', 'Sun>=1', '1:00'),
                                            ('Apr', 'Fri<=1', '2:00'), ('Jul', 'Wed>=30')]:   # day-of-week UNTILs that spill into the previous (Mar 30) / next (Aug 1) month in 2012; 'Mar Sun>=29 2:00' (= Apr 1, the AU rule's own day) only re-creates D19 under another key and is left out
                add('chain2t', [(a, r0), (b, r1)], ['2012 ' + ' '.join(tail)])
    # chain3t: three eras with two month/day/time UNTILs in the same or in consecutive years
    T3 = [('Mar', 'lastSun', '1:00u'), ('Jun', '15', '0:00'), ('Oct', 'Sun>=1', '2:00s'), ('Nov', 'Sun>=1', '2:00')]
    pairs3 = [('2012 ' + ' '.join(T3[i]), '2012 ' + ' '.join(T3[k])) for i in range(4) for k in range(i + 1, 4)] + \
             [('2012 ' + ' '.join(a), '2013 ' + ' '.join(b)) for a in T3 for b in T3]
    for rs in itertools.product(kinds, repeat=3):
        for u1, u2 in pairs3:
            add('chain3t', list(zip(('9:30', '10:30', '9:30'), rs)), [u1, u2])
    return '\n'.join(rl), out

def year_boundary():
    """-> [(family, signature, description, text, zone)] single-era zones whose policy has one transition close to the
    year boundary (the basic processor keys its cache on the UTC year and treats UTC Jan 1 as the previous year):
    (6 Dec + 10 Jan) ON forms x 7 AT x 6 STDOFF x 2 orientations, exhaustive."""
    out = []
    for mon, days in (('Dec', ('29', '30', '31', 'lastSun', 'Sun>=25', 'Sun<=31')),
                      ('Jan', ('1', '2', '3', '4', 'Sun>=1', 'Sun>=2', 'Sun>=3', 'Mon<=8', 'Mon<=9', 'Mon<=10'))):
        for on in days:
            for at in ('0:00', '0:00s', '0:00u', '2:00', '12:00u', '23:59', '24:00'):
                for so in ('-12:00', '-8:00', '0:00', '5:45', '12:45', '14:00'):
                    for orient in ('dst-starts', 'dst-ends'):
                        k = len(out); z, p = 'B/y%d' % k, 'B%d' % k
                        s1, l1, s2, l2 = ('1:00', 'D', '0', 'S') if orient == 'dst-starts' else ('0', 'S', '1:00', 'D')
                        text = '\n'.join([
                            'Rule\t%s\t1990\tmax\t-\t%s\t%s\t%s\t%s\t%s' % (p, mon, on, at, s1, l1),
                            'Rule\t%s\t1990\tmax\t-\tJul\t1\t2:00\t%s\t%s' % (p, s2, l2),
                            'Zone\t%s\t%s\t%s\tT%%sT' % (z, so, p)])
                        out.append(('yearedge', '%s%s' % (mon, on), '%s %s %s stdoff %s %s' % (mon, on, at, so, orient), text, z))
    return out

def granularity_source():
    """-> [(family, signature, description, text, zone)] zones whose fields are NOT aligned to the table granularity
    (STDOFF with odd minutes / seconds, AT / UNTIL / SAVE off the 15-minute or 1-minute grid) plus aligned controls:
    the truncation (non-strict) and removal (strict) paths of the compiler. One deviation per zone, exhaustive product."""
    out = []
    def add(sig, rules, eras):
        k = len(out); z, p = 'G/g%d' % k, 'G%d' % k
        lines = [r.replace('@P', p) for r in rules]
        for j, e in enumerate(eras):
            lines.append(('Zone\t%s\t' % z if j == 0 else '\t\t\t') + e.replace('@P', p))
        out.append(('granularity', sig, sig, '\n'.join(lines), z))
    base_rules = ['Rule\t@P\t1990\tmax\t-\tMar\tlastSun\t2:00\t1:00\tD', 'Rule\t@P\t1990\tmax\t-\tOct\tlastSun\t3:00\t0\tS']
    for so in ('5:30', '5:40', '5:37', '-0:44:30', '0:01', '-0:01', '-0:01:15', '12:45:59', '-3:30:01', '0:00:30', '-4:56', '-0:44'):
        add('STDOFF=' + so, [], ['%s\t-\tLMT' % so])
        add('STDOFF=%s+rules' % so, base_rules, ['%s\t@P\tX%%sT' % so])
    for at in ('2:00', '2:07', '2:15', '1:59:59', '0:00:01', '23:59:59', '2:07s', '2:07u', '24:00'):
        add('AT=' + at, ['Rule\t@P\t1990\tmax\t-\tMar\tlastSun\t%s\t1:00\tD' % at, base_rules[1]], ['1:00\t@P\tX%sT'])
    for sv in ('1:00', '0:20', '0:30', '0:07', '1:00:30', '-0:20', '2:40'):
        add('SAVE=' + sv, ['Rule\t@P\t1990\tmax\t-\tMar\tlastSun\t2:00\t%s\tD' % sv, base_rules[1]], ['1:00\t@P\tX%sT'])
        add('RULES=' + sv, [], ['1:00\t%s\tFXT\t2010' % sv, '1:00\t-\tSTT'])
    for ut in ('2:00', '2:07', '1:59:59', '0:00:01', '2:07s', '2:07u'):
        add('UNTIL=' + ut, base_rules, ['1:00\t@P\tX%%sT\t20105 %s' % ut, '2:00\t-\tYYT'])
    return out

def dense_policies():
    """-> [(family, signature, description, text, zone)] policies with n = 3..12 transitions per year (one rule per month, which
    is all the documented basic constraints ask for), single era and a two-era chain: the transition buffers of the two
    processors (8 pool entries / 5 cache slots). 16 zones = one per shard, so that a crash costs nothing else."""
    months = ['Jan', 'Feb', 'Mar', 'Apr', 'May', 'Jun', 'Jul', 'Aug', 'Sep', 'Oct', 'Nov', 'Dec']
    out = []
    for n in (3, 4, 5, 6, 7, 8, 10, 12):
        for shape in ('one-era', 'two-eras'):
            k = len(out); z, p = 'D/d%d' % k, 'D%d' % k
            lines = []
            for i in range(n):
                lines.append('Rule\t%s\t1990\tmax\t-\t%s\t15\t2:00\t%s\t%s' % (p, months[(i * 12) // n], '1:00' if i % 2 == 0 else '0', 'D' if i % 2 == 0 else 'S'))
            if shape == 'one-era':
                lines.append('Zone\t%s\t1:00\t%s\tX%%sT' % (z, p))
            else:
                lines.append('Zone\t%s\t1:00\t%s\tX%%sT\t2010' % (z, p))
                lines.append('\t\t\t2:00\t%s\tY%%sT' % p)
            out.append(('dense', 'n=%d' % n, '%d transitions per year, %s' % (n, shape), '\n'.join(lines), z))
    return out

def format_letters():
    """-> [(family, signature, description, text, zone)] FORMAT x LETTER product (abbreviation assembly): every pairing whose
    abbreviations have 3..6 characters - shorter ones cannot be written into a POSIX footer by zic (no oracle), longer ones
    draw zic's own 'too many characters' warning and exceed the documented abbreviation size."""
    fmts = ['X%sT', 'AAA/BBB', '%s', 'XY%s', '+05/+06', 'XXT', 'ABCD%sT', 'ABC%sT', 'LONGER/LONGES', '-00', '+0530/+0630']
    lets = [('S', 'D'), ('-', 'S'), ('-', '-'), ('ST', 'DT'), ('STD', 'DST'), ('a', 'b'), ('LONG', 'LONGER'), ('WAT', 'WAST')]
    out = []
    for f in fmts:
        for ls, ld in lets:
            abb = f.split('/') if '/' in f else [f.replace('%s', '' if l == '-' else l) for l in (ls, ld)]
            if any(not (3 <= len(x) <= 6) for x in abb):
                continue
            k = len(out); z, p = 'F/f%d' % k, 'F%d' % k
            text = '\n'.join(['Rule\t%s\t1990\tmax\t-\tMar\tlastSun\t2:00\t1:00\t%s' % (p, ld), 'Rule\t%s\t1990\tmax\t-\tOct\tlastSun\t3:00\t0\t%s' % (p, ls),
                              'Zone\t%s\t1:00\t%s\t%s' % (z, p, f)])
            out.append(('format', '%s:%s/%s' % (f, ls, ld), 'FORMAT %s LETTER %s/%s' % (f, ls, ld), text, z))
    return out


def many_eras():
    """-> [(family, signature, description, text, zone)] 3..9 eras inside one year (the extended processor holds at most
    kMaxMatches = 4 eras per 14-month window). Kept apart from dense_policies(): those crash their shard."""
    months = ['Jan', 'Feb', 'Mar', 'Apr', 'May', 'Jun', 'Jul', 'Aug', 'Sep', 'Oct', 'Nov', 'Dec']
    out = []
    for n in (2, 3, 4, 5, 6, 8):
        z = 'D/e%d' % n
        lines = []
        for i in range(n):
            lines.append(('Zone\t%s\t' % z if i == 0 else '\t\t\t') + '%d:00\t-\tE%02dT\t2012 %s 1 0:00' % (1 + i % 3, i, months[1 + (i * 10) // n]))
        lines.append('\t\t\t5:00\t-\tLAST')
        out.append(('eras', 'eras=%d' % (n + 1), '%d eras within 2012' % (n + 1), '\n'.join(lines), z))
    return out


def link_source():
    """-> (text, zone_names, expectations) Link lines in every relation to their target and to other names: plain, to a missing
    zone, to another link, defined twice (zic: the last definition wins), named like an existing zone, and names that collide
    after the C++ identifier normalisation ('-' and '_', '+')."""
    text = '\n'.join([
        'Rule\tLP\t1990\tmax\t-\tMar\tlastSun\t2:00\t1:00\tD', 'Rule\tLP\t1990\tmax\t-\tOct\tlastSun\t3:00\t0\tS',
        'Zone\tA/one\t1:00\tLP\tX%sT', 'Zone\tA/two\t2:00\t-\tTWO', 'Zone\tA/B-C\t3:00\t-\tBMC', 'Zone\tA/B_C\t4:00\t-\tBUC',
        'Zone\tA/x+y\t5:00\t-\tXPY', 'Zone\tEtc/GMT+1\t-1:00\t-\t-01', 'Zone\tEtc/GMT-1\t1:00\t-\t+01', 'Zone\tNoslash\t6:00\t-\tNSL',
        'Link\tA/one\tL/one', 'Link\tA/two\tL/two', 'Link\tL/one\tL/chain', 'Link\tA/missing\tL/dangling',
        'Link\tA/one\tL/dup', 'Link\tA/two\tL/dup', 'Link\tA/one\tL/B-C', 'Link\tA/two\tL/B_C', 'Link\tA/B_C\tL/toremoved']) + '\n'
    zones = ['A/one', 'A/two', 'A/B-C', 'A/B_C', 'A/x+y', 'Etc/GMT+1', 'Etc/GMT-1', 'Noslash']
    links = {'L/one': 'A/one', 'L/two': 'A/two', 'L/dup': 'A/two', 'L/B-C': 'A/one', 'L/B_C': 'A/two'}   # what zic makes of them
    return text, zones, links

def layout_source():
    """-> [(variant, text, zone_names, links)] the same two-era zone written in the layouts zic accepts: tab / space / mixed indentation of the
    continuation line, indented keyword lines, trailing comments, several blanks between fields, comment and blank lines inside
    a zone, CRLF line ends. Every variant must compile to the same thing (or be refused), never to a shorter zone."""
    rule = ['Rule\tYP\t1990\tmax\t-\tMar\tlastSun\t2:00\t1:00\tD', 'Rule\tYP\t1990\tmax\t-\tOct\tlastSun\t3:00\t0\tS']
    ruleq = ['  Rule  YQ  1990  max  -  Mar  lastSun  2:00  1:00  D   # indented, blanks', '\tRule\tYQ\t1990\tmax\t-\tOct\tlastSun\t3:00\t0\tS']
    variants = {
        'tabs': ['Zone\tY/tabs\t1:00\tYP\tX%sT\t2010', '\t\t\t2:00\tYP\tY%sT'],
        'spaces': ['Zone Y/spaces 1:00 YP X%sT 2010', '            2:00 YP Y%sT'],
        'onetab': ['Zone\tY/onetab\t1:00\tYP\tX%sT\t2010', '\t2:00\tYP\tY%sT'],
        'mixed': ['Zone\tY/mixed\t1:00\tYP\tX%sT\t2010', ' \t 2:00\tYP\tY%sT'],
        'comments': ['Zone\tY/comments\t1:00\tYP\tX%sT\t2010 # first era', '# a comment line inside the zone', '', '\t\t\t2:00\tYP\tY%sT # second era'],
        'indentedzone': ['  Zone\tY/indentedzone\t1:00\tYP\tX%sT\t2010', '\t\t\t2:00\tYP\tY%sT'],
        'indentedrule': ['Zone\tY/indentedrule\t1:00\tYQ\tX%sT\t2010', '\t\t\t2:00\tYQ\tY%sT'],
        'crlf': ['Zone\tY/crlf\t1:00\tYP\tX%sT\t2010\r', '\t\t\t2:00\tYP\tY%sT\r'],
    }
    variants['indentedlink'] = ['Zone\tY/indentedlink\t1:00\tYP\tX%sT\t2010', '\t\t\t2:00\tYP\tY%sT', '  Link\tY/indentedlink\tY/thelink']
    out = []
    for k, v in variants.items():
        # one source per variant: a refusal (the transformer exits when a policy is missing) must not hide the others
        out.append((k, '\n'.join(rule + (ruleq if k == 'indentedrule' else []) + v) + '\n', ['Y/' + k], {'Y/thelink': 'Y/indentedlink'} if k == 'indentedlink' else {}))
    return out

def rejoin_source():
    """-> (text, zone_names): a policy that one zone uses up to year X, that nobody uses for some years, and that another zone
    picks up again later, with one-off rules lying entirely inside the gap. What the second zone needs as its latest prior rule
    is then a rule no era overlaps - anything that decides "which rules are used" per policy instead of per era loses it.
    Product: 2 leave years x 2 one-off years x 2 rejoin years, plus the same with the policy never left (control)."""
    lines, names = [], []
    k = 0
    for leave in (2002, 2003):
        for oneoff in (2004, 2005):
            for rejoin in (2008, 2010):
                p, q = 'RP%d' % k, 'RQ%d' % k
                lines += ['Rule\t%s\t1990\t%d\t-\tApr\tlastSun\t2:00\t1:00\tD' % (p, leave), 'Rule\t%s\t1990\t%d\t-\tOct\tlastSun\t2:00\t0\tS' % (p, leave),
                          'Rule\t%s\t%d\tonly\t-\tApr\tlastSun\t2:00\t1:00\tD' % (p, oneoff), 'Rule\t%s\t%d\tonly\t-\tOct\tlastSun\t2:00\t0\tS' % (p, oneoff),
                          'Rule\t%s\t1990\tmax\t-\tMar\tlastSun\t2:00\t1:00\tD' % q, 'Rule\t%s\t1990\tmax\t-\tSep\tlastSun\t2:00\t0\tS' % q]
                a, b, c = 'R/first%d' % k, 'R/second%d' % k, 'R/ctl%d' % k
                lines += ['Zone\t%s\t-6:00\t%s\tC%%sT\t%d' % (a, p, leave + 1), '\t\t\t-6:00\t-\tCST',
                          'Zone\t%s\t-5:00\t%s\tE%%sT\t%d' % (b, q, rejoin), '\t\t\t-5:00\t%s\tE%%sT' % p,
                          'Zone\t%s\t-7:00\t%s\tM%%sT\t%d' % (c, q, rejoin), '\t\t\t-7:00\t%s\tM%%sT' % q]
                names += [a, b, c]; k += 1
    return '\n'.join(lines) + '\n', names
