"""Compile freshly generated C++ zone tables under namespace vdb and sweep them with the C01/C02 driver."""
import os, shutil, tempfile, hashlib
import runner
from oracle import zicrun
from pyexp import pipeline

def sweep_generated(comp, zic_tables, pid, tier, seed, step=None, win=0, timeout=7200):
    """-> ShardResult; oracle = zic tables of the same source restricted to the emitted zones"""
    ext = comp.scope == 'extended'
    d = tempfile.mkdtemp(prefix='verif-gen-')
    try:
        try:
            pipeline.generate(comp, 'arduino', d, db_namespace='vdb')
        except Exception as e:
            return None, 'GENERATOR-RAISED %s: %s' % (type(e).__name__, str(e)[:200])
        names = sorted(comp.tzdb['zones_map'])
        h = hashlib.sha256(repr([(n, zic_tables[n]) for n in names]).encode()).hexdigest()[:12]
        opath = os.path.join(runner.BUILD, 'oracle-gen-%s.txt' % h)
        os.makedirs(runner.BUILD, exist_ok=True)
        zicrun.write_tables(zic_tables, names, opath)
        srcs = [os.path.join(d, f) for f in ('zone_infos.cpp', 'zone_policies.cpp', 'zone_registry.cpp')]
        try:
            exe = runner.build_driver('zone_sweep.cpp', 'fast', extra_srcs=srcs, extra_flags=['-DVERIF_GEN_NS=vdb', '-DVERIF_GEN_EXT=%d' % (1 if ext else 0)], extra_inc=[d], strict=True)
        except runner.Broken as e:
            return None, str(e)
        args = ['--db=gen', '--oracle=' + opath, '--pid=' + pid]
        if step:
            args.append('--step=%d' % step)
        if win:
            args.append('--win=%d' % win)
        res = runner.run_shards(exe, args, tier=tier, seed=seed, timeout=timeout)
        try:
            os.remove(opath)
        except OSError:
            pass
        return res, None
    finally:
        shutil.rmtree(d, ignore_errors=True)


def run_generated(driver, comp, zic_tables, args, tier, seed, timeout=7200):
    """Build `driver` against the freshly generated tables of `comp` (namespace vdb) and run it sharded with --db=gen and the
    zic oracle of the emitted zones. -> (ShardResult | None, error text)"""
    ext = comp.scope == 'extended'
    d = tempfile.mkdtemp(prefix='verif-gen-')
    try:
        pipeline.generate(comp, 'arduino', d, db_namespace='vdb')
        names = sorted(comp.tzdb['zones_map'])
        h = hashlib.sha256(repr([(n, zic_tables[n]) for n in names]).encode()).hexdigest()[:12]
        os.makedirs(runner.BUILD, exist_ok=True)
        opath = os.path.join(runner.BUILD, 'oracle-gen-%s-%d.txt' % (h, os.getpid()))
        zicrun.write_tables(zic_tables, names, opath)
        srcs = [os.path.join(d, f) for f in ('zone_infos.cpp', 'zone_policies.cpp', 'zone_registry.cpp')]
        try:
            exe = runner.build_driver(driver, 'fast', extra_srcs=srcs, extra_flags=['-DVERIF_GEN_NS=vdb', '-DVERIF_GEN_EXT=%d' % (1 if ext else 0)], extra_inc=[d], strict=True)
            res = runner.run_shards(exe, ['--db=gen', '--oracle=' + opath] + list(args), tier=tier, seed=seed, timeout=timeout)
        except runner.Broken as e:
            return None, str(e)
        finally:
            try:
                os.remove(opath)
            except OSError:
                pass
        return res, None
    finally:
        shutil.rmtree(d, ignore_errors=True)
