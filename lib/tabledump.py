"""Compile a zone database (shipped or generated) against /repo/src and decode it through the brokers."""
import os, json, subprocess, hashlib
import runner

def dump(dbdir, ns, ext, extra_srcs=None, strict=True):
    """-> dict(db=..., zones=[...], policies={addr: {...}})"""
    srcs = [os.path.join(dbdir, f) for f in ('zone_infos.cpp', 'zone_policies.cpp', 'zone_registry.cpp')]
    exe = runner.build_driver('table_dump.cpp', 'fast', extra_srcs=srcs, extra_flags=['-DVDB_NS=' + ns, '-DVDB_EXT=%d' % (1 if ext else 0)], with_lib=False, extra_inc=[dbdir], strict=strict)
    p = subprocess.run([exe], stdout=subprocess.PIPE, stderr=subprocess.PIPE, text=True)
    if p.returncode != 0:
        raise runner.Broken('table_dump failed: ' + p.stderr[-1000:])
    out = {'zones': [], 'policies': {}}
    for line in p.stdout.splitlines():
        if not line.startswith('{'):
            continue
        r = json.loads(line)
        if r['type'] == 'zone': out['zones'].append(r)
        elif r['type'] == 'policy': out['policies'][r['addr']] = r
        elif r['type'] == 'db': out['db'] = r
    return out
