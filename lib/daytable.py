"""Day table generated from CPython's datetime (independent of LocalDate)."""
import datetime, os, struct
from runner import BUILD

def day_table():
    p = os.path.join(BUILD, 'daytable.bin')
    if os.path.exists(p) and os.path.getsize(p) == 93136 * 12:
        return p
    os.makedirs(BUILD, exist_ok=True)
    d = datetime.date(1873, 1, 1)
    end = datetime.date(2127, 12, 31)
    e0 = datetime.date(2000, 1, 1).toordinal()
    import calendar
    with open(p + '.tmp', 'wb') as f:
        while True:
            f.write(struct.pack('<hBBiBBBB', d.year, d.month, d.day, d.toordinal() - e0, d.isoweekday(),
                                1 if calendar.isleap(d.year) else 0, calendar.monthrange(d.year, d.month)[1], 0))
            if d == end:
                break
            d += datetime.timedelta(days=1)
    os.rename(p + '.tmp', p)
    return p
