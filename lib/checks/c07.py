"""C07: local time resolution on both processors x all zones x all transition neighbourhoods."""
import runner
from runner import Report, build_driver, run_shards
from dboracle import db_oracle

def run(tier, seed):
    rep = Report('C07', tier, seed, 'exploration')
    exe = build_driver('c07_localtime.cpp', 'fast')
    tot = {}
    for db in ('zonedbx', 'zonedb'):
        path, zones, links, tabs, text = db_oracle(db)
        res = run_shards(exe, ['--db=' + db, '--oracle=' + path], tier=tier, seed=seed, timeout=3600)
        rep.absorb(res)
        tot[db] = len(zones)
    # ---- generated tables: the C03 era-chain and year-edge products compiled by the real pipeline, both scopes
    import calendar, gensweep
    from pyexp import mutants, pipeline
    from oracle import zicrun
    rules, chains = mutants.era_chains()
    edge = mutants.year_boundary()
    text = rules + '\n' + '\n'.join(c_[3] for c_ in chains) + '\n' + '\n'.join(c_[3] for c_ in edge) + '\n'
    label = {c_[4]: c_[2] for c_ in chains + edge}
    names = sorted(label)
    ztabs = zicrun.compile_text(text, names, lo=calendar.timegm((1999, 1, 1, 0, 0, 0)), hi=calendar.timegm((2051, 1, 1, 0, 0, 0)), crosscheck=False, tag='c07-gen')
    gen_zones = 0
    for scope in ('extended', 'basic'):
        comp = pipeline.compile_text(text, scope, start_year=2000, until_year=2050)
        res, err = gensweep.run_generated('c07_localtime.cpp', comp, ztabs, [], tier, seed)
        if res is None:
            raise runner.Broken('generated tables do not build for C07: ' + err[-400:])
        # re-key by the input class instead of the running zone number
        for i, (k, d) in enumerate(res.violations):
            zn = d.get('zone') if isinstance(d, dict) else None
            if zn in label:
                nk = k.rsplit(':', 1)[0] + ':gen:' + label[zn].replace(' ', '_')
                res.violations[i] = (nk, dict(d, source=label[zn]))
        res.viol_totals = {}
        rep.absorb(res)
        gen_zones += len(comp.zone_infos)
        tot['gen-' + scope] = len(comp.zone_infos)
    c = rep.coverage
    c['generated_zones'] = gen_zones
    if c.get('zones', 0) != sum(tot.values()):
        rep.violation('c07:coverage-mismatch', {'zones_done': c.get('zones'), 'expected': tot})
    rep.assumptions += [
        'oracle pre-image sets S(L) = {t : t + off(t) = L} computed from the zic table of the zone\'s own recorded lines',
        'overlap: any real occurrence accepted for Basic, the later one required for Extended; gap: instant = L - offset in force before the gap',
        'generated tables: the era-chain (1,392) and year-edge (1,344) products of C03, compiled by the real pipeline in both scopes and resolved the same way against the zic tables of the same source',
        'wall times whose +-18 h window holds an irregular pattern (no single enclosing gap) are counted as complex_not_judged (still must be non-error and normalised)',
    ]
    return rep.finish(exhaustive=True, extra={
        'evaluations': c.get('resolutions', 0),
        'distinct_nontrivial': c.get('distinct_gap_or_overlap_walltimes', 0),
        'rule': 'both processors x every zone x every oracle transition in 2000..2049 x every wall-clock minute from 200 min before the earlier to 200 min after the later wall time of the transition (+ second-level edges) + a %s wall-clock grid; distinct_nontrivial = distinct (zone, wall time) pairs that fall in a gap or overlap' % ('1 h' if tier == 'thorough' else '6 h'),
    })

def replay(path):
    import json
    rec = json.load(open(path))
    case = (rec.get('cases') or [{}])[0] or {}
    print(json.dumps(rec, indent=1)[:3000])
    zone = case.get('zone')
    if not zone:
        return 0
    exe = build_driver('c07_localtime.cpp', 'fast')
    n = 0
    for db in ('zonedbx', 'zonedb'):
        opath = db_oracle(db)[0]
        res = run_shards(exe, ['--db=' + db, '--oracle=' + opath, '--zone=' + zone], nshards=1, tier='quick', seed=0, timeout=600)
        for k, d in res.violations[:10]:
            print('REPRODUCED', k, json.dumps(d)); n += 1
    print('replay of zone %s: %d violation(s) on the current tree' % (zone, n))
    return 1 if n else 0
