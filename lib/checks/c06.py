"""C06 calendar / epoch arithmetic: exhaustive domain enumeration on the real classes."""
import runner
from runner import Report, build_driver, run_shards
from daytable import day_table

def run(tier, seed):
    rep = Report('C06', tier, seed, 'exploration')
    exe = build_driver('c06_calendar.cpp', 'fast')
    tab = day_table()
    res = run_shards(exe, ['--table=' + tab], tier=tier, seed=seed, timeout=1800)
    rep.absorb(res)
    c = rep.coverage
    ev = c.get('dates', 0) + c.get('triples', 0) + c.get('seconds', 0) + c.get('year_checks', 0)
    rep.assumptions += [
        'oracle: CPython datetime/calendar day table + independent 64-bit days_from_civil/civil_from_days',
        'isError judged per documented component intervals (day 1..31 regardless of month; 24:00:00 valid)',
        'epoch seconds of the first calendar day above -2^31 (overflow inside the library) are counted, not judged here; C09 covers them',
        'host LP64 build through the Arduino shim (cxx/shim)',
    ]
    return rep.finish(exhaustive=True, extra={
        'evaluations': ev,
        'distinct_nontrivial': c.get('dates', 0) + c.get('seconds_distinct_days', 0) + c.get('time_triples_valid', 0),
        'rule': 'all 93,136 dates 1873..2127; all int16 years; all 2^24 (yearTiny,month,day) and (hour,minute,second) byte triples; '
                'epoch seconds: every one of the 2^32-1 values in both tiers. '
                'distinct_nontrivial = distinct dates + distinct calendar days hit by the seconds sweep + valid time triples',
    })

def replay(path):
    import json
    print(open(path).read())
    return 0
