"""C09: total error handling, memory safety, transition buffer bounds (ASan aborting, UBSan reporting every site)."""
import runner
from runner import Report, build_driver, run_shards, ub_sites

def run(tier, seed):
    rep = Report('C09', tier, seed, 'model_checking')
    env = {'UBSAN_OPTIONS': 'print_stacktrace=1'}
    # (a) history exploration with hostile argument classes
    exe = build_driver('c08_history.cpp', 'sanrec')
    res = run_shards(exe, ['--pid=c09', '--hostile=1'] + (['--mdepth=8', '--sdepth=3'] if tier == 'thorough' else ['--w1stride=8', '--mdepth=5', '--sdepth=2']), tier=tier, seed=seed, timeout=3000, san=True, env=env)
    rep.absorb(res)
    stderr = list(res.stderr_all)
    # (b) domain sweeps, parsers, buffer bounds, unvalidated-call probes
    exe2 = build_driver('c09_sweeps.cpp', 'sanrec0')   # unoptimised: every UB site reports under its own function (see runner.FLAVOURS)
    res2 = run_shards(exe2, [], tier=tier, seed=seed, timeout=3000, san=True, env=env)
    rep.absorb(res2)
    stderr += res2.stderr_all
    ub = ub_sites(stderr)
    for key, info in sorted(ub.items()):
        fn = key.split(':', 2)[2]
        if fn in ('ace_time::LocalDate::dayOfWeek', 'ace_time::LocalDate::daysInMonth') and key.split(':')[1] in ('index-out-of-bounds', 'load'):
            # same defect as the ASan abort observed by the isolated S4 probes
            rep.violation('c09:out-of-bounds-table-read:' + fn.replace('ace_time::', ''), info, 0)
            continue
        rep.violation(key, info, info['count'])
    c = rep.coverage
    c['ub_sites_reported'] = sorted(ub)
    rep.assumptions += [
        'ASan + UBSan (g++ 12; -O1 for the history worlds, -O0 for the domain sweeps so that every undefined-behaviour site is attributed to its own function) on the LP64 host through the Arduino shim; AVR-width arithmetic (16-bit int) is not reachable here',
        'UBSan runs in report-and-continue mode: every distinct undefined-behaviour site reached is a violation keyed ubsan:<kind>:<function>; ASan reports abort the shard/child and are attributed through the journal',
        'out-of-range arguments must give isError()/""/kErrorMinutes on a fresh object and (through the history worlds) every time they are repeated',
        'extended high-water mark must be < ZoneInfo.transitionBufSize and < 8 for every shipped zone and year 1999..2050; basic processors must never drop a transition (guarded hook) nor use more than 5 slots',
        'compiler-generated (non-shipped) zones are checked for buffer bounds in C03, not here',
    ]
    ev = c.get('s1_epoch_values', 0) + c.get('s1_component_tuples', 0) + c.get('s1_static_helper_calls', 0) + c.get('s2_parser_inputs', 0) + c.get('s3_extended_zone_years', 0) + c.get('s3_basic_zone_years', 0)
    return rep.finish(exhaustive=False, extra={
        'states': c.get('states', 0), 'transitions': c.get('transitions', 0) + ev,
        'traces_validated_against_impl': c.get('executions', 0) + ev,
        'rule': 'history worlds of C08 (quick: every 8th zone for the own-processor world, seed-rotated) re-explored with hostile argument classes (sentinel, INT32_MIN+1, INT32_MAX, years 1872/2127, invalid components) + sweeps: int32 epoch values (stride %s + 6001-wide windows at 12 boundaries), %d component tuples over boundary sets, all int16 offsets/years, parser inputs of every length, every (zone, year) cache fill' % ('251' if tier == 'thorough' else '65521', c.get('s1_component_tuples', 0)),
    })

def replay(path):
    print(open(path).read()); return 0
