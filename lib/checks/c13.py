"""C13: SystemClock keeps exact time (complete one-step transition relation + schedule and setting histories)."""
import runner
from runner import Report, build_driver, run_shards

def run(tier, seed):
    rep = Report('C13', tier, seed, 'model_checking')
    exe = build_driver('c13_sysclock.cpp', 'fast')
    res = run_shards(exe, [], tier=tier, seed=seed, timeout=3000)
    rep.absorb(res)
    c = rep.coverage
    rep.assumptions += [
        'the clock is a SystemClock subclass overriding the virtual clockMillis(); only the low 16 bits of the counter are used by the class, 64-bit counter values straddling 2^16 and 2^32 are injected',
        'P1 enumerates the one-step transition relation (mPrevMillis x distance to next poll); with the invariant "mPrevMillis = m0 + 1000k and mEpochSeconds = T + k (mod 2^16 / exact)" checked on every transition, induction closes all schedules with gaps <= 64,536 ms; both tiers cover all 65,536 x 65,536 (phase, distance) pairs',
        'private fields read through the friend name SystemClockLoopTest declared by SystemClock.h',
        'gaps above 64,536 ms are outside the statement',
    ]
    tr = c.get('p1_transitions', 0) + c.get('p2_polls', 0) + c.get('p3_transitions', 0)
    return rep.finish(exhaustive=True, extra={
        'states': c.get('p1_phases', 0) * 1000 + c.get('p3_states', 0),
        'transitions': tr, 'traces_validated_against_impl': c.get('p1_transitions', 0) + c.get('p2_schedules', 0) + c.get('p3_executions', 0),
        'rule': 'P1: every (phase, distance) pair executed on a fresh clock; P2: all gap sequences of length 5 (6 thorough) over a 12-value gap alphabet from 7 counter start values; P3: BFS with canonical-state deduplication over {setNow(T1), setNow(T1-5), setNow(T1+5), setNow(T1+1), setNow(sentinel), advance+getNow x 7 gaps, advance without reading x 2, getLastSyncTime} to depth 5 (6 thorough) against a reference model',
    })

def replay(path):
    print(open(path).read()); return 0
