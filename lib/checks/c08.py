"""C08: answers do not depend on query history. Explicit-state exploration of the real cache automata."""
import runner
from runner import Report, build_driver, run_shards
from oracle import tzsrc
import os

def run(tier, seed, pid='C08', hostile=False, flavour='fast'):
    rep = Report(pid, tier, seed, 'model_checking')
    exe = build_driver('c08_history.cpp', flavour)
    args = ['--pid=' + pid.lower()] + (['--hostile=1'] if hostile else [])
    res = run_shards(exe, args, tier=tier, seed=seed, timeout=3000, san=(flavour == 'san'))
    rep.absorb(res)
    c = rep.coverage
    npy = 0
    if not hostile:
        from pyexp import pipeline, zs_history
        text, zones, links = tzsrc.reconstruct_cpp(os.path.join(runner.REPO, 'src/ace_time/zonedbx'))
        comp = pipeline.compile_text(text, 'extended')
        names = sorted(comp.zone_infos)
        main = names if tier == 'thorough' else names[seed % 8::8]     # the year-edge pass runs on every zone in both tiers
        for name, n, viol in zs_history.run(comp.zone_infos, names, main):
            npy += n
            for v in viol:
                rep.violation('c08:python:history-dependent', v)
        c['python_zones'] = len(names); c['python_zones_all_year_pairs'] = len(main)
        c['python_steps'] = npy
    rep.assumptions += [
        'oracle: the same call on a freshly constructed TimeZone with its own processor (C++) / a fresh ZoneSpecifier (Python)',
        'canonical state key = complete processor cache content read through friend-named accessors (bound ZoneInfo, year, filled flag, every cached transition) plus, for managers, the round-robin index and every slot (guarded hooks verifProcessorCache/verifProcessor); states with equal keys have equal observable futures because queries read nothing else',
        'worlds: (W1) every zone of both databases with its own processor, 6 calls x 57 argument classes (years 1997..2052 + sentinel), explored to fixpoint; (W2) 2-3 TimeZone values sharing one processor over a forced-collision zone set; (W3) Basic/ExtendedZoneManager with 1..3 (thorough 4) slots holding N+1 / N+2 zones, handles created by rotating createForZoneInfo/Name/Id/Index; (W4) Python ZoneSpecifier, every ordered year pair per zone in one long history (quick: every 8th zone), plus for every zone and three option sets (default, 13-month, 13-month with the basic finder/selector) year-edge lookups - local Jan 1 00:30, Dec 31 23:30, Jan 1 12:00Z - with the previous, same and next year cached by each kind of call',
        'shared and managed worlds are additionally explored statelessly (every sequence of 3 calls, 4 in the thorough tier, over a reduced alphabet, no state matching), so that behaviour depending on state outside the canonical key is still reached within that depth',
        'a world that crashes is reported with the last recorded step and abandoned (counted in worlds_aborted_by_crash)',
    ]
    return rep.finish(exhaustive=(c.get('worlds_cut_at_depth_bound', 0) == 0), extra={
        'states': c.get('states', 0), 'transitions': c.get('transitions', 0),
        'traces_validated_against_impl': c.get('executions', 0) + npy, 'stateless_histories': c.get('stateless_histories', 0),
        'rule': 'breadth-first exploration of operation histories on freshly built real objects with canonical-state deduplication; every transition (one call in one reachable state) is compared with the fresh-object answer; worlds_explored_to_fixpoint = worlds whose reachable state space was exhausted (all histories of any length), worlds_cut_at_depth_bound = worlds stopped at the depth bound',
    })

def replay(path):
    print(open(path).read()); return 0
