"""C10: zone lookup is exact and terminates (small-scope exhaustive over registries 0..40 + full registries)."""
import runner
from runner import Report, build_driver, run_shards

def run(tier, seed):
    rep = Report('C10', tier, seed, 'model_checking')
    exe = build_driver('c10_lookup.cpp', 'san')
    res = run_shards(exe, [], tier=tier, seed=seed, timeout=1800, san=True)
    rep.absorb(res)
    c = rep.coverage
    nq = c.get('name_queries', 0) + c.get('id_queries', 0) + c.get('index_queries', 0) + c.get('direct_search_calls', 0) + c.get('stock_queries', 0)
    rep.assumptions += [
        'Part A instantiates the real ZoneRegistrar/ZoneManagerImpl templates with a bounds-checking registry broker and a step-counting comparator (limit 4n+64 comparisons): slot reads outside the registry and non-termination are observed exactly',
        'Part B drives the stock BasicZoneManager/ExtendedZoneManager typedefs (full registries and selected sizes) in forked children under ASan with a 2 s watchdog per query (a batch stops restarting after 4 dead queries)',
        'registries are subsets of the shipped zones (three sorted bases per size) in sorted order and reverse / rotate / every adjacent swap; registries with duplicate names are outside the enumeration',
    ]
    return rep.finish(exhaustive=True, extra={
        'states': c.get('registries', 0) + c.get('stock_registries', 0),
        'transitions': nq,
        'traces_validated_against_impl': nq,
        'rule': 'state = one registry (size 0..40 x base x ordering variant); transition = one lookup (present names, absent names below/between/above every entry, prefixes/extensions/case changes, ids, indices) executed on the real code and compared with a linear scan over std::string',
    })

def replay(path):
    print(open(path).read()); return 0
