"""C17: TimePeriod / TimeOffset / mutation helpers, exhaustive."""
from runner import Report, build_driver, run_shards

def run(tier, seed):
    rep = Report('C17', tier, seed, 'exploration')
    exe = build_driver('c17_period.cpp', 'san')
    res = run_shards(exe, [], nshards=1, tier=tier, seed=seed, timeout=1800, san=True)
    rep.absorb(res)
    c = rep.coverage
    rep.assumptions += ['incrementMod / incrementModOffset come from the AceCommon shim (cxx/shim/AceCommon.h, written from the published semantics)',
                        'incrementYear is judged on yearTiny 0..126 (documented wrap 2099 -> 2000); negative and 127 inputs are recorded only',
                        'forHourMinute pairs are judged for consistent sign and |minute| < 60, as the statement says',
                        'built with ASan+UBSan (abort on first report)']
    ev = c.get('period_seconds', 0) + c.get('period_components', 0) + c.get('offset_pairs', 0) + c.get('offset_minutes', 0) + c.get('increment15_starts', 0) + c.get('increment_helper_inputs', 0)
    return rep.finish(exhaustive=True, extra={'evaluations': ev, 'distinct_nontrivial': c.get('period_seconds', 0) + c.get('offset_pairs', 0),
        'rule': 'all 1,843,199 second counts; all (hour,minute,{0,1,59},sign) component periods; all int8 (hour,minute) pairs; all int16 minute offsets; increment15Minutes from every offset -960..960; every increment helper from all 256 byte values'})

def replay(path):
    print(open(path).read()); return 0
