"""C15: printed forms are exact and parse back."""
from runner import Report, build_driver, run_shards
from daytable import day_table

def run(tier, seed):
    rep = Report('C15', tier, seed, 'exploration')
    exe = build_driver('c15_print.cpp', 'fast')
    res = run_shards(exe, ['--table=' + day_table()], tier=tier, seed=seed, timeout=1800)
    rep.absorb(res)
    c = rep.coverage
    rep.assumptions += ['expected text from snprintf; Print base class and printPad2To come from the Arduino/AceCommon shim',
                        'OffsetDateTime: first/last days of months and end of February for 1/16 of the years (seed-rotated) + 1873/1874/2000/2126/2127, each x every offset -99:59..+99:59',
                        'link names denote their target zone object, so they print the target name; only registry names are enumerated']
    ev = c.get('local_datetimes', 0) + c.get('local_times', 0) + c.get('offsets', 0) + c.get('offset_datetimes', 0) + c.get('zoned_datetimes', 0) + c.get('manual_zones', 0) + c.get('short_strings', 0)
    return rep.finish(exhaustive=True, extra={'evaluations': ev, 'distinct_nontrivial': c.get('offsets', 0) + c.get('zone_names', 0) + c.get('boundary_dates', 0) + c.get('local_times', 0),
        'rule': 'all 93,136 dates x 5 times, all 86,400 times x 4 dates, all 11,999 offsets, boundary dates x all offsets, every zone of both registries (direct and managed) x 3 instants, manual zones on a 15-minute grid, every string length below the minimum; print compared with snprintf and parse(print(x)) == x'})

def replay(path):
    print(open(path).read()); return 0
