"""C18: rule-day resolution agrees in C++, Python and the calendar; year-spilling expressions are rejected."""
import os, io, contextlib
import runner
from runner import Report, build_driver, run_shards

def run(tier, seed):
    rep = Report('C18', tier, seed, 'exploration')
    exe = build_driver('c18_ruleday.cpp', 'fast')
    out = os.path.join(runner.BUILD, 'c18-cxx-%d.bin' % os.getpid())
    try:
        res = run_shards(exe, ['--out=' + out], nshards=1, tier=tier, seed=seed, timeout=600)
        rep.absorb(res)
        from pyexp import ruleday
        total = rep.coverage.get('cxx_cases', 0)
        n = spill = nontriv = 0
        for (cn, cs, cnt, viol) in ruleday.compare(out, total):
            n += cn; spill += cs; nontriv += cnt
            for v in viol:
                if v is None:
                    rep.viol_n['c18:resolution-mismatch'] = rep.viol_n.get('c18:resolution-mismatch', 0) + 1
                else:
                    rep.violation('c18:resolution-mismatch', v)
    finally:
        if os.path.exists(out):
            os.remove(out)
    # grammar
    from tzdb.transformer import _parse_on_day_string, Transformer
    g = ruleday.grammar()
    for s, want in g.items():
        got = _parse_on_day_string(s)
        if tuple(got) != want:
            rep.violation('c18:grammar:wrong-parse', {'on': s, 'got': list(got), 'want': list(want)})
    for s in ruleday.MALFORMED:
        try:
            got = tuple(_parse_on_day_string(s))
        except Exception as e:
            got = ('exception', type(e).__name__)
        if got != (0, 0) and got[0] != 'exception':   # raising is a refusal too ("not accepted")
            rep.violation('c18:grammar:malformed-accepted', {'on': s, 'got': list(got)})
    # spill rule through the real transformer filter
    sp = ruleday.spill_cases()
    nrej = 0
    for (m, dow, d, y0, ny) in sp:
        on = ('last' + ruleday.WEEK[dow - 1]) if d == 0 else ('%s>=%d' % (ruleday.WEEK[dow - 1], d) if d > 0 else '%s<=%d' % (ruleday.WEEK[dow - 1], -d))
        tr = Transformer({}, {}, {}, 'extended', 2000, 2050, 60, 60, True)
        rules = {'P': [{'onDay': on, 'inMonth': m, 'fromYear': 2000, 'toYear': 2050, 'rawLine': 'Rule P 2000 2050 - %s %s 2:00 1:00 D' % (ruleday.MONTHS[m - 1], on)}]}
        with contextlib.redirect_stdout(io.StringIO()), contextlib.redirect_stderr(io.StringIO()):
            kept = tr._create_rules_with_on_day_expansion(rules)
        if 'P' in kept:
            key = 'c18:year-spill-not-rejected:%s %s' % (ruleday.MONTHS[m - 1], 'Xxx<=%d' % -d if d < 0 else ('Xxx>=%d' % d if d > 0 else 'lastXxx'))
            from tzdb.transformer import calc_day_of_month
            rep.violation(key, {'rule_month': ruleday.MONTHS[m - 1], 'on': on, 'first_year_that_spills': y0, 'years_that_spill': ny,
                                'python_calc_day_of_month': list(calc_day_of_month(y0, m, dow, d)), 'calendar': list(ruleday.calendar_answer(y0, m, dow, d)),
                                'note': 'the policy is kept; the C++ runtime then calls daysInMonth(year, 0) and indexes its table at -1'})
        else:
            nrej += 1
            if not tr.all_removed_policies.get('P'):
                rep.violation('c18:removed-without-reason', {'on': on, 'month': m})
    c = rep.coverage
    c['python_cases'] = n; c['year_spilling_cases_excluded_from_value_comparison'] = spill
    c['grammar_strings'] = len(g); c['malformed_strings'] = len(ruleday.MALFORMED); c['spill_expressions'] = len(sp); c['spill_expressions_rejected'] = nrej
    rep.assumptions += ['calendar oracle scans datetime.date day by day (independent of both implementations)',
                        'day-of-month magnitudes above the month length in that year are not admitted (zic rejects them)',
                        '(year, month, weekday, day) cases whose calendar answer leaves the year are judged by the spill rule (the compiler must reject the expression), not by value']
    return rep.finish(exhaustive=True, extra={'evaluations': n + len(g) + len(ruleday.MALFORMED) + len(sp), 'distinct_nontrivial': nontriv,
        'samples': [{'year': 2024, 'month': 3, 'on': 'Sun>=8', 'answer': [3, 10]}, {'year': 2021, 'month': 10, 'on': 'lastSun', 'answer': [10, 31]}, {'year': 2020, 'month': 5, 'on': 'Fri<=1', 'answer': [4, 24]}],
        'rule': 'years 1873..2126 x 12 months x weekday 0..7 x day -31..31 within the month length: C++ calcStartDayOfMonth == Python calc_day_of_month == calendar scan; distinct_nontrivial = cases whose answer differs from the nominal (month, day)'})

def replay(path):
    print(open(path).read()); return 0
