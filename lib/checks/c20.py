"""C20: generated artefacts are deterministic and mutually consistent."""
import os, re, sys, subprocess, tempfile, shutil, importlib, importlib.util, calendar
import concurrent.futures as cf
import runner
from runner import Report, Broken

def _canon(text):
    """sort the comma-separated reasons inside a comment's parentheses/braces (their order is explicitly not part of the statement)"""
    def fix(m):
        inner = m.group(2)
        parts = sorted(p.strip() for p in inner.split(','))
        return m.group(1) + ', '.join(parts) + m.group(3)
    out = []
    for l in text.splitlines():
        if l.lstrip().startswith(('//', '#')):
            l = re.sub(r'(\()([^()]*,[^()]*)(\))', fix, l)
            l = re.sub(r'(\{)([^{}]*,[^{}]*)(\})', fix, l)
        out.append(l)
    return '\n'.join(out)

def run_tzcompiler(workdir, input_dir, scope, language, action, hashseed, y0, y1):
    out = os.path.join(workdir, 'out'); os.makedirs(out, exist_ok=True)
    env = dict(os.environ, PYTHONHASHSEED=str(hashseed))
    cmd = [sys.executable, os.path.join(runner.REPO, 'tools/tzcompiler.py'), '--input_dir', input_dir, '--output_dir', 'out', '--tz_version', 'verif', '--action', action,
           '--language', language, '--scope', scope, '--start_year', str(y0), '--until_year', str(y1)]
    r = subprocess.run(cmd, cwd=workdir, env=env, stdout=subprocess.PIPE, stderr=subprocess.PIPE, text=True)
    if r.returncode != 0:
        return None, r.stderr[-800:]
    return {f: open(os.path.join(out, f)).read() for f in sorted(os.listdir(out))}, None

def _load_py(path, name):
    spec = importlib.util.spec_from_file_location(name, path)
    mod = importlib.util.module_from_spec(spec)
    spec.loader.exec_module(mod)
    return mod

def _plain(x):
    if isinstance(x, dict): return {k: _plain(v) for k, v in x.items()}
    if isinstance(x, (list, tuple)): return [_plain(v) for v in x]
    return x

def run(tier, seed):
    from oracle import tzsrc, zicrun
    from pyexp import pipeline, semantics
    rep = Report('C20', tier, seed, 'exploration')
    thorough = tier == 'thorough'
    cov = dict(compiler_runs=0, files_compared=0, bytes_compared=0, count_statements_checked=0, python_maps_compared=0, zones_basic_vs_extended=0, zonedbpy_zone_years=0)
    sources = []
    t1, z1, l1, _ = tzsrc.normalise_zi()
    sources.append(('S1-2025b', t1, z1 + sorted(l1), 2000, 2050))
    t2, z2, l2 = tzsrc.reconstruct_cpp(os.path.join(runner.REPO, 'src/ace_time/zonedbx'))
    sources.append(('S2-zonedbx', t2, z2 + sorted(l2), 2000, 2050))
    # S6: fields off the table granularity (truncation notes, raw vs truncated values) - small, both tiers
    from pyexp import mutants
    from checks.c03 import zic_filter
    g6 = mutants.granularity_source()
    kept6, _ = zic_filter([(i, c_[3]) for i, c_ in enumerate(g6)], 'S6')
    k6 = {k for k, _ in kept6}
    sources.append(('S6-granularity', '\n'.join(c_[3] for i, c_ in enumerate(g6) if i in k6) + '\n', [c_[4] for i, c_ in enumerate(g6) if i in k6], 2000, 2050))
    if thorough:
        fam = [m for m in mutants.family() if m[0] % 2 == seed % 2]
        kept, rej = zic_filter([(m[0], m[3]) for m in fam], 'S3')
        ks = {k for k, _ in kept}
        sources.append(('S3-mutants', '\n'.join(t for _, t in kept) + '\n', [m[4] for m in fam if m[0] in ks], 2000, 2050))
    hashseeds = [0, 1, 2, 3, seed + 4]
    tmp = tempfile.mkdtemp(prefix='verif-c20-')
    try:
        for tag, text, names, y0, y1 in sources:
            inp = pipeline.write_input_dir(text, os.path.join(tmp, tag + '-in')) if os.makedirs(os.path.join(tmp, tag + '-in')) is None else None
            jobs = {}
            with cf.ThreadPoolExecutor(runner.NCPU) as ex:
                for scope in ('basic', 'extended'):
                    for lang in ('arduino', 'python'):
                        for hs in hashseeds:
                            wd = os.path.join(tmp, '%s-%s-%s-%d' % (tag, scope, lang, hs)); os.makedirs(wd)
                            jobs[(scope, lang, hs)] = ex.submit(run_tzcompiler, wd, inp, scope, lang, 'zonedb,zonelist', hs, y0, y1)
            results = {k: f.result() for k, f in jobs.items()}
            cov['compiler_runs'] += len(results)
            # tools/tzcompiler.py is non-strict unless told otherwise: the in-memory compilation mirrors that
            comps = {scope: pipeline.compile_text(text, scope, start_year=y0, until_year=y1, strict=False) for scope in ('basic', 'extended')}
            for scope in ('basic', 'extended'):
                comp = comps[scope]
                for lang in ('arduino', 'python'):
                    base, err = results[(scope, lang, hashseeds[0])]
                    if base is None:
                        rep.violation('c20:%s:%s:%s:compiler-failed' % (tag, scope, lang), {'stderr': err}); continue
                    # (1) determinism across processes / hash seeds
                    for hs in hashseeds[1:]:
                        other, err2 = results[(scope, lang, hs)]
                        if other is None:
                            rep.violation('c20:%s:%s:%s:compiler-failed' % (tag, scope, lang), {'stderr': err2}); continue
                        if sorted(base) != sorted(other):
                            rep.violation('c20:%s:%s:%s:file-set-differs' % (tag, scope, lang), {'a': sorted(base), 'b': sorted(other)})
                        for f in base:
                            cov['files_compared'] += 1; cov['bytes_compared'] += len(base[f])
                            if f in other and _canon(base[f]) != _canon(other[f]):
                                a, b = _canon(base[f]).splitlines(), _canon(other[f]).splitlines()
                                i = next((i for i, (x, y) in enumerate(zip(a, b)) if x != y), min(len(a), len(b)))
                                rep.violation('c20:nondeterministic-output:%s:%s' % (lang, f), {'source': tag, 'scope': scope, 'PYTHONHASHSEED': [hashseeds[0], hs], 'line': i + 1, 'a': a[i][:200] if i < len(a) else None, 'b': b[i][:200] if i < len(b) else None})
                    # (3) zones.txt == emitted zones
                    zt = [l.strip() for l in base.get('zones.txt', '').splitlines() if l.strip() and not l.startswith('#')]
                    if sorted(zt) != sorted(comp.tzdb['zones_map']):
                        rep.violation('c20:%s:%s:zones.txt-differs-from-emitted' % (tag, scope), {'only_list': sorted(set(zt) - set(comp.tzdb['zones_map']))[:5], 'only_emitted': sorted(set(comp.tzdb['zones_map']) - set(zt))[:5]})
                    cov['count_statements_checked'] += 1
                    nz, nl, npol = len(comp.tzdb['zones_map']), len(comp.tzdb['links_map']), len(comp.tzdb['rules_map'])
                    nr = sum(len(v) for v in comp.tzdb['rules_map'].values()); ne = sum(len(v) for v in comp.tzdb['zones_map'].values())
                    def stated(text_, pattern):
                        return [int(x) for x in re.findall(pattern, text_, re.M)]
                    if lang == 'arduino':
                        ns = 'zonedb' if scope == 'basic' else 'zonedbx'
                        ic, ih, pc, ph, rc, rh = (base.get(f, '') for f in ('zone_infos.cpp', 'zone_infos.h', 'zone_policies.cpp', 'zone_policies.h', 'zone_registry.cpp', 'zone_registry.h'))
                        actual = {
                            'zones(cpp structs)': len(re.findall(r'^const \w+::ZoneInfo kZone\w+ ACE_TIME_PROGMEM = \{', ic, re.M)),
                            'links(cpp refs)': len(re.findall(r'^const \w+::ZoneInfo& kZone\w+ = kZone\w+;', ic, re.M)),
                            'zones(h decls)': len(re.findall(r'^extern const \w+::ZoneInfo kZone\w+;', ih, re.M)),
                            'ids(h)': len(re.findall(r'^const uint32_t kZoneId\w+ = 0x', ih, re.M)),
                            'links(h decls)': len(re.findall(r'^extern const \w+::ZoneInfo& kZone\w+;', ih, re.M)),
                            'policies(cpp structs)': len(re.findall(r'^const \w+::ZonePolicy kPolicy\w+ ACE_TIME_PROGMEM = \{', pc, re.M)),
                            'policies(h decls)': len(re.findall(r'^extern const \w+::ZonePolicy kPolicy\w+;', ph, re.M)),
                            'rules(cpp items)': len(re.findall(r'/\*fromYearTiny\*/', pc)),
                            'eras(cpp items)': len(re.findall(r'/\*offsetCode\*/', ic)),
                            'registry entries': len(re.findall(r'^\s*&kZone\w+,', rc, re.M)),
                        }
                        checks = [('zone_infos.cpp // Zones:', stated(ic, r'^// Zones: (\d+)'), nz), ('zone_infos.cpp // Links:', stated(ic, r'^// Links: (\d+)'), nl),
                                  ('zone_infos.h // Supported zones:', stated(ih, r'^// Supported zones: (\d+)'), nz),
                                  ('zone_policies.cpp // Policies:', stated(pc, r'^// Policies: (\d+)'), npol), ('zone_policies.cpp // Rules: (file)', stated(pc, r'^// Rules: (\d+)')[:1], nr),
                                  ('zone_policies.h // Supported zone policies:', stated(ph, r'^// Supported zone policies: (\d+)'), npol),
                                  ('kZoneRegistrySize', stated(rh, r'kZoneRegistrySize = (\d+)'), nz), ('kZoneRegistry[N]', stated(rc, r'kZoneRegistry\[(\d+)\]'), nz)]
                        for what, vals, want in checks:
                            cov['count_statements_checked'] += 1
                            if not vals or any(v != want for v in vals):
                                rep.violation('c20:header-count-wrong:arduino:%s' % what, {'source': tag, 'scope': scope, 'stated': vals, 'entries': want})
                        for what, got, want in (('zones(cpp structs)', actual['zones(cpp structs)'], nz), ('links(cpp refs)', actual['links(cpp refs)'], nl), ('zones(h decls)', actual['zones(h decls)'], nz), ('ids(h)', actual['ids(h)'], nz),
                                                ('links(h decls)', actual['links(h decls)'], nl), ('policies(cpp structs)', actual['policies(cpp structs)'], npol), ('policies(h decls)', actual['policies(h decls)'], npol),
                                                ('rules(cpp items)', actual['rules(cpp items)'], nr), ('eras(cpp items)', actual['eras(cpp items)'], ne), ('registry entries', actual['registry entries'], nz)):
                            cov['count_statements_checked'] += 1
                            if got != want:
                                rep.violation('c20:entry-count-differs-from-emitted:arduino:%s' % what, {'source': tag, 'scope': scope, 'in_file': got, 'emitted': want})
                        per_pol = stated(pc, r'^// Rules: (\d+)')[1:]
                        if sum(per_pol) != nr:
                            rep.violation('c20:header-count-wrong:arduino:per-policy Rules', {'source': tag, 'scope': scope, 'sum': sum(per_pol), 'rules': nr})
                    else:
                        pi, pp = base.get('zone_infos.py', ''), base.get('zone_policies.py', '')
                        for what, vals, want in (('numInfos', stated(pi, r'^# numInfos: (\d+)')[:1], nz), ('numEras', stated(pi, r'^# numEras: (\d+)')[:1], ne),
                                                 ('numPolicies', stated(pp, r'^# numPolicies: (\d+)')[:1], npol), ('numRules', stated(pp, r'^# numRules: (\d+)')[:1], nr)):
                            cov['count_statements_checked'] += 1
                            if vals != [want]:
                                rep.violation('c20:header-count-wrong:python:%s' % what, {'source': tag, 'scope': scope, 'stated': vals, 'entries': want})
                        # (2) imported python tables == in-memory tables
                        d = os.path.join(tmp, '%s-%s-%s-%d' % (tag, scope, lang, hashseeds[0]), 'out')
                        pkg = 'verif_gen_%s_%s' % (re.sub(r'\W', '_', tag), scope)
                        os.rename(d, os.path.join(os.path.dirname(d), pkg))
                        sys.path.insert(0, os.path.dirname(d))
                        try:
                            open(os.path.join(os.path.dirname(d), pkg, '__init__.py'), 'a').close()
                            # zone_infos.py imports "from .zone_policies import *" or similar
                            zi = importlib.import_module(pkg + '.zone_infos'); zp = importlib.import_module(pkg + '.zone_policies')
                            cov['python_maps_compared'] += 2
                            if _plain(zi.ZONE_INFO_MAP) != _plain(comp.zone_infos):
                                bad = [n for n in comp.zone_infos if _plain(zi.ZONE_INFO_MAP.get(n)) != _plain(comp.zone_infos[n])][:3]
                                rep.violation('c20:python-tables-differ-from-in-memory:ZONE_INFO_MAP', {'source': tag, 'scope': scope, 'zones': bad, 'only_file': sorted(set(zi.ZONE_INFO_MAP) - set(comp.zone_infos))[:3]})
                            if _plain(zp.ZONE_POLICY_MAP) != _plain(comp.zone_policies):
                                bad = [n for n in comp.zone_policies if _plain(zp.ZONE_POLICY_MAP.get(n)) != _plain(comp.zone_policies[n])][:3]
                                rep.violation('c20:python-tables-differ-from-in-memory:ZONE_POLICY_MAP', {'source': tag, 'scope': scope, 'policies': bad})
                        except Exception as e:
                            rep.violation('c20:generated-python-does-not-import', {'source': tag, 'scope': scope, 'error': '%s: %s' % (type(e).__name__, str(e)[:300])})
                        finally:
                            sys.path.remove(os.path.dirname(d))
            # (5) basic subset of extended, identical behaviour
            cb, cx = comps['basic'], comps['extended']
            tabs = zicrun.compile_text(text, names, crosscheck=False, tag=tag)
            for n in sorted(cb.zone_infos):
                cov['zones_basic_vs_extended'] += 1
                if n not in cx.zone_infos:
                    rep.violation('c20:basic-zone-missing-in-extended', {'source': tag, 'zone': n, 'extended_reason': str(cx.removed_zones.get(n))[:200]}); continue
            rb = {n: d for n, d, _ in semantics.compare(cb.zone_infos, tabs, sorted(cb.zone_infos), y0, y1)}
            rx = {n: d for n, d, _ in semantics.compare(cx.zone_infos, tabs, sorted(set(cb.zone_infos) & set(cx.zone_infos)), y0, y1)}
            for n in rx:
                if (rb.get(n) is None) != (rx[n] is None) or (rb.get(n) and rb[n] != rx[n]):
                    note = ' '.join(str(x) for x in list(cb.notable_zones.get(n, [])) + list(cx.notable_zones.get(n, [])))
                    for cc in (cb, cx):     # truncation notes are also attached to the policies a zone uses
                        note += ' ' + ' '.join(str(x) for e in cc.zones_map.get(n, []) for x in cc.notable_policies.get(e['rules'], []))
                    if re.search(r'truncat|granularity', note, re.I):
                        continue
                    rep.violation('c20:basic-and-extended-behave-differently', {'source': tag, 'zone': n, 'basic_vs_zic': rb.get(n), 'extended_vs_zic': rx[n]})
    finally:
        shutil.rmtree(tmp, ignore_errors=True)
    # (5b) state that survives between two compilations in ONE process: source B, then a source A that reuses B's policy and
    # zone names with different content (multi-character letters, other offsets), then B again - B's files must not change
    srcB = 'Rule\tPP\t1990\tmax\t-\tMar\tlastSun\t2:00\t1:00\tD\nRule\tPP\t1990\tmax\t-\tOct\tlastSun\t3:00\t0\tS\nZone\tR/one\t1:00\tPP\tX%sT\nZone\tR/two\t2:00\t-\tTWO\n'
    srcA = 'Rule\tPP\t1990\tmax\t-\tApr\tSun>=1\t1:00u\t2:00\tCDT\nRule\tPP\t1990\tmax\t-\tSep\tlastSun\t1:00u\t0\tCST\nZone\tR/one\t-6:00\tPP\t%s\t2010 Jun 1\n\t\t\t-5:00\t-\tEST\nZone\tR/three\t3:00\t-\tTHR\nLink\tR/three\tR/two\n'
    def gen_all(text):
        out = {}
        for scope in ('extended', 'basic'):
            cmp_ = pipeline.compile_text(text, scope, strict=False)
            for lang in ('arduino', 'python'):
                dd = tempfile.mkdtemp(prefix='verif-c20r-')
                try:
                    pipeline.generate(cmp_, lang, dd)
                    for f in sorted(os.listdir(dd)):
                        out[(scope, lang, f)] = open(os.path.join(dd, f)).read()
                finally:
                    shutil.rmtree(dd, ignore_errors=True)
        return out
    b1 = gen_all(srcB); gen_all(srcA); b2 = gen_all(srcB)
    cov['in_process_recompilations'] = 3
    for kf in sorted(b1):
        cov['files_compared'] += 1
        if b1[kf] != b2.get(kf):
            a_, b_ = b1[kf].splitlines(), (b2.get(kf) or '').splitlines()
            i = next((i for i, (x, y) in enumerate(zip(a_, b_)) if x != y), min(len(a_), len(b_)))
            rep.violation('c20:output-depends-on-earlier-compilation-in-the-same-process:%s:%s' % (kf[1], kf[2]), {'scope': kf[0], 'line': i + 1, 'first': a_[i][:200] if i < len(a_) else None, 'after_other_source': b_[i][:200] if i < len(b_) else None})
    # (6) the checked-in Python database loads and equals zic on its own recorded lines for every year of its range
    dbpy = os.path.join(runner.REPO, 'tools/zonedbpy')
    sys.path.insert(0, os.path.join(runner.REPO, 'tools'))
    try:
        zi = importlib.import_module('zonedbpy.zone_infos'); zp = importlib.import_module('zonedbpy.zone_policies')
        t3, z3, l3 = tzsrc.reconstruct_py(dbpy)
        if sorted(z3) != sorted(zi.ZONE_INFO_MAP):
            rep.violation('c20:zonedbpy:recorded-lines-vs-map', {'only_comments': sorted(set(z3) - set(zi.ZONE_INFO_MAP))[:3], 'only_map': sorted(set(zi.ZONE_INFO_MAP) - set(z3))[:3]})
        tabs3 = zicrun.compile_text(t3, z3, lo=calendar.timegm((1999, 1, 1, 0, 0, 0)), hi=calendar.timegm((2039, 1, 1, 0, 0, 0)), tag='zonedbpy')
        for n, d, nb in semantics.compare(zi.ZONE_INFO_MAP, tabs3, sorted(zi.ZONE_INFO_MAP), 2000, 2038):
            cov['zonedbpy_zone_years'] += 38
            if d:
                rep.violation('c20:zonedbpy:differs-from-zic:%s' % n, {'zone': n, 'difference': d})
        for what, vals, want in (('numInfos', re.findall(r'^# numInfos: (\d+)', open(os.path.join(dbpy, 'zone_infos.py')).read(), re.M)[:1], len(zi.ZONE_INFO_MAP)),
                                 ('numPolicies', re.findall(r'^# numPolicies: (\d+)', open(os.path.join(dbpy, 'zone_policies.py')).read(), re.M)[:1], len(zp.ZONE_POLICY_MAP))):
            cov['count_statements_checked'] += 1
            if [int(v) for v in vals] != [want]:
                rep.violation('c20:zonedbpy:header-count-wrong:%s' % what, {'stated': vals, 'entries': want})
    except Exception as e:
        rep.violation('c20:zonedbpy:does-not-load', {'error': '%s: %s' % (type(e).__name__, str(e)[:300])})
    rep.coverage.update(cov)
    rep.assumptions += ['the real tools/tzcompiler.py is run in separate processes with PYTHONHASHSEED in {0, 1, 2, 3, VERIF_SEED+4}; outputs compared byte for byte after sorting the comma-separated reasons inside comment parentheses/braces',
                        'sources: 2025b (normalised), zonedbx reconstructed' + (', half of the 1-deviation mutant family' if thorough else ''),
                        'C++ entry counts are parsed from the generated text; the compiled registry size is checked in C11/C12/C03']
    return rep.finish(exhaustive=False, extra={'evaluations': cov['files_compared'] + cov['count_statements_checked'] + cov['python_maps_compared'] + cov['zones_basic_vs_extended'] + cov['zonedbpy_zone_years'],
        'distinct_nontrivial': cov['count_statements_checked'] + cov['zones_basic_vs_extended'],
        'samples': [{'run': 'tzcompiler.py --scope extended --language arduino, PYTHONHASHSEED 0 vs 1', 'files': ['zone_infos.cpp', 'zone_infos.h', 'zone_policies.cpp', 'zone_policies.h', 'zone_registry.cpp', 'zone_registry.h', 'zones.txt']}],
        'rule': 'each (source, scope, language): 3 compiler processes compared file by file; every count stated in a generated header vs the number of entries; imported Python maps vs InlineGenerator maps; basic-scope zones vs extended-scope zones; every zone and year of tools/zonedbpy vs zic'})

def replay(path):
    print(open(path).read()); return 0
