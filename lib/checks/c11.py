"""C11: zone ids are djb2(name), unique, shared by all databases, stable; registries sorted and complete; links denote targets."""
import os, re, json, subprocess, hashlib
import runner
from runner import Report, build_driver, run_shards, Broken

def djb2(name):
    h = 5381
    for ch in name.encode('utf-8'):
        h = (h * 33 + ch) & 0xFFFFFFFF
    return h

def parse_header(db):
    d = os.path.join(runner.REPO, 'src/ace_time', db)
    zones, ids, links = [], [], []
    for line in open(os.path.join(d, 'zone_infos.h')):
        m = re.match(r'extern const \w+::ZoneInfo (kZone\w+); // (\S+)\s*$', line)
        if m: zones.append((m.group(1), m.group(2))); continue
        m = re.match(r'const uint32_t (kZoneId\w+) = (0x[0-9a-fA-F]+); // (\S+)', line)
        if m: ids.append((m.group(1), int(m.group(2), 16), m.group(3))); continue
        m = re.match(r'extern const \w+::ZoneInfo& (kZone\w+); // (\S+) -> (\S+)', line)
        if m: links.append((m.group(1), m.group(2), m.group(3)))
    return zones, ids, links

GEN_HEAD = r'''
#include "acetime_all.h"
#include "verif.h"
#include "dbtraits.h"
using namespace ace_time; using namespace verif;
template <class ZI> struct ZRow { const char* name; const ZI* info; };
struct IRow { const char* name; uint32_t constant; };
template <class ZI> struct LRow { const char* link; const ZI* ref; const char* target; };
'''

def gen_driver(path, parsed):
    o = [GEN_HEAD]
    for db, (zones, ids, links) in parsed.items():
        zi = 'basic::ZoneInfo' if db == 'zonedb' else 'extended::ZoneInfo'
        o.append('static const ZRow<%s> zones_%s[] = {' % (zi, db))
        o += ['  {"%s", &%s::%s},' % (n, db, ident) for ident, n in zones] + ['  {nullptr, nullptr}};']
        o.append('static const IRow ids_%s[] = {' % db)
        o += ['  {"%s", %s::%s},' % (n, db, ident) for ident, v, n in ids] + ['  {nullptr, 0}};']
        o.append('static const LRow<%s> links_%s[] = {' % (zi, db))
        o += ['  {"%s", &%s::%s, "%s"},' % (ln, db, ident, tn) for ident, ln, tn in links] + ['  {nullptr, nullptr, nullptr}};']
    o.append(r'''
template <class Db, class Z, class L> void dump(const char* db, const Z* zones, const IRow* ids, const L* links) {
  for (int i = 0; zones[i].name; i++) printf("{\"type\":\"zone\",\"db\":\"%s\",\"decl_name\":%s,\"broker_name\":%s,\"zoneId\":%u,\"addr\":%llu}\n", db, jstr(zones[i].name).c_str(), jstr(Db::name(zones[i].info)).c_str(), Db::id(zones[i].info), (unsigned long long)(uintptr_t)zones[i].info);
  for (int i = 0; ids[i].name; i++) printf("{\"type\":\"idconst\",\"db\":\"%s\",\"name\":%s,\"value\":%u}\n", db, jstr(ids[i].name).c_str(), ids[i].constant);
  for (int i = 0; links[i].link; i++) printf("{\"type\":\"link\",\"db\":\"%s\",\"link\":%s,\"target\":%s,\"ref_name\":%s,\"addr\":%llu}\n", db, jstr(links[i].link).c_str(), jstr(links[i].target).c_str(), jstr(Db::name(links[i].ref)).c_str(), (unsigned long long)(uintptr_t)links[i].ref);
  for (int i = 0; i < Db::size(); i++) printf("{\"type\":\"registry\",\"db\":\"%s\",\"index\":%d,\"name\":%s,\"zoneId\":%u,\"addr\":%llu}\n", db, i, jstr(Db::name(Db::info(i))).c_str(), Db::id(Db::info(i)), (unsigned long long)(uintptr_t)Db::info(i));
  printf("{\"type\":\"regsize\",\"db\":\"%s\",\"size\":%d}\n", db, (int)Db::size());
}
int main(int argc, char** argv) {
  Args a = parse_args(argc, argv); Counters c;
  dump<BasicDb>("zonedb", zones_zonedb, ids_zonedb, links_zonedb);
  dump<ExtDb>("zonedbx", zones_zonedbx, ids_zonedbx, links_zonedbx);
  // TimeZone::getZoneId() for all five kinds
  BasicZoneManager<1> bm(zonedb::kZoneRegistrySize, zonedb::kZoneRegistry); ExtendedZoneManager<1> xm(zonedbx::kZoneRegistrySize, zonedbx::kZoneRegistry);
  for (int i = 0; i < BasicDb::size(); i++) { BasicZoneProcessor p; uint32_t want = BasicDb::id(BasicDb::info(i));
    if (TimeZone::forZoneInfo(BasicDb::info(i), &p).getZoneId() != want || bm.createForZoneIndex(i).getZoneId() != want) violation("c11:TimeZone-getZoneId", fmt("{\"zone\":\"%s\"}", BasicDb::name(BasicDb::info(i)))); c.add("getZoneId_checks", 2); }
  for (int i = 0; i < ExtDb::size(); i++) { ExtendedZoneProcessor p; uint32_t want = ExtDb::id(ExtDb::info(i));
    if (TimeZone::forZoneInfo(ExtDb::info(i), &p).getZoneId() != want || xm.createForZoneIndex(i).getZoneId() != want) violation("c11:TimeZone-getZoneId", fmt("{\"zone\":\"%s\"}", ExtDb::name(ExtDb::info(i)))); c.add("getZoneId_checks", 2); }
  if (TimeZone::forUtc().getZoneId() != 0 || TimeZone::forError().getZoneId() != 0) violation("c11:TimeZone-getZoneId-manual", "{}");
  done(c); return 0;
}''')
    with open(path, 'w') as f:
        f.write('\n'.join(o))

def run(tier, seed):
    rep = Report('C11', tier, seed, 'exploration')
    parsed = {db: parse_header(db) for db in ('zonedb', 'zonedbx')}
    src = '\n'.join(repr(parsed[d]) for d in parsed)
    gen = os.path.join(runner.BUILD, 'c11_gen_%s.cpp' % hashlib.sha256(src.encode()).hexdigest()[:12])
    os.makedirs(runner.BUILD, exist_ok=True)
    gen_driver(gen, parsed)
    runner.build_lib('fast')     # a broken tree is reported as broken, not as a violation
    n_eval = 0
    try:
        exe = build_driver(gen, 'fast')
    except Broken as e:
        rep.violation('c11:declared-constant-or-zone-missing', {'compiler': str(e)[-1500:]})
        return rep.finish(exhaustive=False, extra={'evaluations': 1, 'distinct_nontrivial': 2, 'rule': 'generated translation unit referencing every declared kZone*/kZoneId* failed to compile'})
    res = run_shards(exe, [], nshards=1, tier=tier, seed=seed, timeout=600)
    rep.absorb(res)
    recs = res.records
    base_path = os.path.join(runner.VERIF, 'id_baseline.json')
    baseline = json.load(open(base_path)) if os.path.exists(base_path) else {}
    ids_by_db = {}
    for db in ('zonedb', 'zonedbx'):
        zones = [r for r in recs if r['type'] == 'zone' and r['db'] == db]
        consts = {r['name']: r['value'] for r in recs if r['type'] == 'idconst' and r['db'] == db}
        reg = [r for r in recs if r['type'] == 'registry' and r['db'] == db]
        links = [r for r in recs if r['type'] == 'link' and r['db'] == db]
        regsize = [r['size'] for r in recs if r['type'] == 'regsize' and r['db'] == db][0]
        byname = {}
        for z in zones:
            n_eval += 1
            n = z['broker_name']
            if z['decl_name'] != n: rep.violation('c11:name-differs-from-declaration', {'db': db, 'declared': z['decl_name'], 'stored': n})
            if z['zoneId'] != djb2(n): rep.violation('c11:id-not-djb2', {'db': db, 'zone': n, 'id': z['zoneId'], 'djb2': djb2(n)})
            if consts.get(n) != z['zoneId']: rep.violation('c11:kZoneId-constant-differs', {'db': db, 'zone': n, 'constant': consts.get(n), 'id': z['zoneId']})
            if n in baseline and baseline[n] != z['zoneId']: rep.violation('c11:id-differs-from-baseline', {'db': db, 'zone': n, 'baseline': baseline[n], 'id': z['zoneId']})
            if n not in baseline: rep.coverage['zones_without_baseline_entry(new names)'] = rep.coverage.get('zones_without_baseline_entry(new names)', 0) + 1
            byname[n] = z
        idset = {}
        for z in zones:
            if z['zoneId'] in idset: rep.violation('c11:duplicate-id', {'db': db, 'a': idset[z['zoneId']], 'b': z['broker_name']})
            idset[z['zoneId']] = z['broker_name']
        if set(consts) != set(byname): rep.violation('c11:id-constants-vs-zones', {'db': db, 'only_constants': sorted(set(consts) - set(byname))[:5], 'only_zones': sorted(set(byname) - set(consts))[:5]})
        # registry: every zone exactly once, strictly ascending (byte order), size constant
        names = [r['name'] for r in reg]
        if regsize != len(zones) or len(names) != len(zones): rep.violation('c11:registry-size', {'db': db, 'kZoneRegistrySize': regsize, 'zones': len(zones)})
        if sorted(set(names)) != sorted(byname): rep.violation('c11:registry-not-every-zone-once', {'db': db, 'missing': sorted(set(byname) - set(names))[:5], 'extra': sorted(set(names) - set(byname))[:5]})
        for x, y in zip(names, names[1:]):
            if not (x.encode() < y.encode()): rep.violation('c11:registry-not-ascending', {'db': db, 'a': x, 'b': y})
        for r in reg:
            if r['name'] in byname and r['addr'] != byname[r['name']]['addr']: rep.violation('c11:registry-entry-not-the-zone-object', {'db': db, 'zone': r['name']})
        # links
        for l in links:
            n_eval += 1
            t = byname.get(l['target'])
            if t is None or l['addr'] != t['addr'] or l['ref_name'] != l['target']: rep.violation('c11:link-not-its-target', {'db': db, 'link': l['link'], 'target': l['target'], 'refers_to': l['ref_name']})
            if l['link'] in baseline and baseline[l['link']] != djb2(l['link']): rep.violation('c11:id-differs-from-baseline', {'link': l['link']})
        ids_by_db[db] = {z['broker_name']: z['zoneId'] for z in zones}
        rep.coverage['%s_zones' % db] = len(zones); rep.coverage['%s_links' % db] = len(links)
    for n in set(ids_by_db['zonedb']) & set(ids_by_db['zonedbx']):
        if ids_by_db['zonedb'][n] != ids_by_db['zonedbx'][n]: rep.violation('c11:id-differs-between-databases', {'zone': n})
    # Python side: hash_name == djb2 for every known name; zonedbpy names agree with C++ ids
    from pyexp import pipeline
    from tzdb.transformer import hash_name
    import importlib.util
    spec = importlib.util.spec_from_file_location('verif_zonedbpy_infos', os.path.join(runner.REPO, 'tools/zonedbpy/zone_infos.py'))
    import sys
    sys.path.insert(0, os.path.join(runner.REPO, 'tools'))
    from zonedbpy import zone_infos as zp
    allnames = set(baseline) | set(zp.ZONE_INFO_MAP) | set(ids_by_db['zonedb']) | set(ids_by_db['zonedbx'])
    for n in sorted(allnames):
        n_eval += 1
        if hash_name(n) != djb2(n): rep.violation('c11:python-hash_name-not-djb2', {'name': n, 'hash_name': hash_name(n), 'djb2': djb2(n)})
        if n in baseline and baseline[n] != djb2(n): rep.violation('c11:baseline-inconsistent', {'name': n})
    for n in zp.ZONE_INFO_MAP:
        for db in ids_by_db:
            if n in ids_by_db[db] and ids_by_db[db][n] != hash_name(n): rep.violation('c11:python-db-id-differs', {'zone': n, 'db': db})
        if zp.ZONE_INFO_MAP[n]['name'] != n: rep.violation('c11:zonedbpy-name-key', {'zone': n})
    pyids = {}
    for n in zp.ZONE_INFO_MAP:
        h = hash_name(n)
        if h in pyids: rep.violation('c11:duplicate-id', {'db': 'zonedbpy', 'a': pyids[h], 'b': n})
        pyids[h] = n
    rep.coverage['zonedbpy_zones'] = len(zp.ZONE_INFO_MAP); rep.coverage['baseline_names'] = len(baseline)
    # freshly compiled source (the vendored 2025b release): ids, uniqueness, registry order, links, for both scopes
    import tempfile, shutil, tabledump
    from oracle import tzsrc
    text, z1, l1, _ = tzsrc.normalise_zi()
    fresh = 0
    from pyexp import mutants
    t10, z10, l10 = mutants.link_source()          # names with '-', '_', '+', links in every relation to zones
    # two names with the same djb2 value ('az' and 'bY' contribute 33*97+122 = 33*98+89): the compiler must refuse the source
    # (it raises 'Hash collision') or emit unique ids - never two zones with one id
    # names whose djb2 value is tiny (below the code of their last character: 0, 7, 50, 100) - the last round of the hash
    # must be reduced like the others; plus every name of the baseline through the compiler's own hash_name()
    from tzdb.transformer import hash_name as _hn
    tiny = ['America/cqkhujt', 'Verif/cjjxvqa', 'Asia/kguhcvx', 'Verif/mirubng', 'Europe/dafsmhb']
    for nm in tiny + sorted(baseline):
        if _hn(nm) != djb2(nm):
            rep.violation('c11:hash_name-not-djb2', {'name': nm, 'hash_name': _hn(nm), 'djb2': djb2(nm)})
    tsmall = ''.join('Zone\t%s\t%d:00\t-\tT%02d\n' % (nm, i + 1, i) for i, nm in enumerate(tiny))
    tcol = 'Zone\tDemo/Caz\t1:00\t-\tCAZ\nZone\tDemo/CbY\t2:00\t-\tCBY\nZone\tDemo/Other\t3:00\t-\tOTH\n'
    assert djb2('Demo/Caz') == djb2('Demo/CbY')
    refused = 0
    for src_text, scope in [(text, 'extended'), (text, 'basic'), (t10, 'extended'), (t10, 'basic'), (tcol, 'extended'), (tcol, 'basic'), (tsmall, 'extended'), (tsmall, 'basic')]:
        try:
            comp = pipeline.compile_text(src_text, scope)
        except Exception as e:
            if src_text is tcol and 'ollision' in str(e):
                refused += 1; continue
            raise
        d = tempfile.mkdtemp(prefix='verif-c11-')
        try:
            pipeline.generate(comp, 'arduino', d, db_namespace='vdb', buf_sizes={z: 7 for z in comp.tzdb['zones_map']})
            try:
                dumped = tabledump.dump(d, 'vdb', scope == 'extended')
            except runner.Broken as e:
                # generated tables that do not build (e.g. an id that does not fit 32 bits) are a finding, not a harness failure
                rep.violation('c11:fresh-source:generated-tables-do-not-build', {'scope': scope, 'zones': sorted(comp.tzdb['zones_map'])[:6], 'error': str(e)[-600:]})
                continue
            hdr = open(os.path.join(d, 'zone_infos.h')).read()
        finally:
            shutil.rmtree(d, ignore_errors=True)
        names = [z['name'] for z in dumped['zones']]
        seen = {}
        for z in dumped['zones']:
            fresh += 1
            if z['zoneId'] != djb2(z['name']): rep.violation('c11:fresh-source:id-not-djb2', {'scope': scope, 'zone': z['name'], 'id': z['zoneId']})
            if z['name'] in baseline and baseline[z['name']] != z['zoneId']: rep.violation('c11:fresh-source:id-differs-from-baseline', {'scope': scope, 'zone': z['name']})
            if z['zoneId'] in seen: rep.violation('c11:fresh-source:duplicate-id', {'scope': scope, 'a': seen[z['zoneId']], 'b': z['name']})
            seen[z['zoneId']] = z['name']
        if sorted(set(names)) != sorted(comp.tzdb['zones_map']) or len(names) != len(set(names)) or dumped['db']['registrySize'] != len(comp.tzdb['zones_map']):
            rep.violation('c11:fresh-source:registry-not-every-zone-once', {'scope': scope, 'registry': len(names), 'emitted': len(comp.tzdb['zones_map'])})
        for x, y in zip(names, names[1:]):
            if not (x.encode() < y.encode()): rep.violation('c11:fresh-source:registry-not-ascending', {'scope': scope, 'a': x, 'b': y})
        consts = dict((m.group(2), int(m.group(1), 16)) for m in re.finditer(r'const uint32_t kZoneId\w+ = (0x[0-9a-f]+); // (\S+)', hdr))
        for z in dumped['zones']:
            if consts.get(z['name']) != z['zoneId']: rep.violation('c11:fresh-source:kZoneId-constant-differs', {'scope': scope, 'zone': z['name']})
        hl = dict((m.group(1), m.group(2)) for m in re.finditer(r'extern const \S+ZoneInfo& kZone\w+; // (\S+) -> (\S+)', hdr))
        if hl != dict(comp.tzdb['links_map']): rep.violation('c11:fresh-source:links-differ', {'scope': scope, 'only_header': sorted(set(hl) - set(comp.tzdb['links_map']))[:3], 'only_emitted': sorted(set(comp.tzdb['links_map']) - set(hl))[:3]})
    rep.coverage['fresh_source_zones'] = fresh
    rep.coverage['colliding_name_sources_refused'] = refused
    n_eval += fresh
    rep.assumptions += ['id_baseline.json is the committed name -> id snapshot (ids are a pure function of the name, so stability <=> function and names unchanged)',
                        'freshly compiled sources = the vendored 2025b release and the S10 link source (names with - _ +, chained / duplicate / dangling links) through the real pipeline and ArduinoGenerator, both scopes, read back from the compiled tables']
    return rep.finish(exhaustive=True, extra={'evaluations': n_eval + rep.coverage.get('getZoneId_checks', 0), 'distinct_nontrivial': len(allnames),
        'samples': [{'zone': 'America/Los_Angeles', 'id': '0x%08x' % djb2('America/Los_Angeles')}, {'link': 'US/Pacific', 'target': 'America/Los_Angeles'}],
        'rule': 'every zone, id constant, link and registry entry of zonedb and zonedbx (read from the compiled objects through a generated translation unit), every zonedbpy name and every baseline name'})

def replay(path):
    print(open(path).read()); return 0
