"""C01: extended zones equal zic at every instant of 2000..2049."""
import runner
from runner import Report, build_driver, run_shards
from dboracle import db_oracle

def run(tier, seed, pid='C01', db='zonedbx'):
    rep = Report(pid, tier, seed, 'exploration')
    path, zones, links, tabs, text = db_oracle(db)
    exe = build_driver('zone_sweep.cpp', 'fast')
    res = run_shards(exe, ['--db=' + db, '--oracle=' + path, '--pid=' + pid.lower()], tier=tier, seed=seed, timeout=7200)
    rep.absorb(res)
    c = rep.coverage
    nbp = sum(1 for z in zones for e in tabs[z][1:] if 0 <= e[0] < 1577923200)
    if c.get('breakpoints_probed', 0) != nbp or c.get('zones', 0) != len(zones):
        rep.violation(pid.lower() + ':coverage-mismatch', {'zones_swept': c.get('zones'), 'zones_in_source': len(zones),
                                                            'breakpoints_probed': c.get('breakpoints_probed'), 'oracle_breakpoints': nbp})
    rep.assumptions += [
        'oracle: system zic (glibc 2.36) on the Zone/Rule lines recorded in the comments of the shipped tables; TZif read by own reader + POSIX footer evaluator, cross-checked on every run against zdump -v and CPython zoneinfo',
        'DST-in-effect compared as isdst == (deltaMinutes != 0)',
        'quick tier: minute grid + t-2..t+2 s at every oracle breakpoint and UTC year/Jan-2 boundary; thorough tier: every second',
        'host LP64 build through the Arduino shim',
    ]
    extra = {
        'evaluations': c.get('instants', 0),
        'distinct_nontrivial': c.get('breakpoints_confirmed', 0),
        'rule': 'each zone of the compiled registry x each instant on the grid (%s); distinct_nontrivial = (zone, breakpoint) pairs where the oracle changes value and the implementation matched at t-2..t+2 s' % ('every second' if tier == 'thorough' else 'every minute'),
        'oracle_zones': len(zones), 'oracle_breakpoints_in_window': nbp,
    }
    return rep.finish(exhaustive=(tier == 'thorough'), extra=extra)

def replay(path, pid='C01', db='zonedbx'):
    """Re-execute the recorded case: the whole zone of the first recorded case is swept again (quick grid) on the current tree."""
    import json
    rec = json.load(open(path))
    case = (rec.get('cases') or [{}])[0] or {}
    zone = case.get('zone')
    print(json.dumps(rec, indent=1)[:3000])
    if not zone:
        return 0
    opath, zones, links, tabs, text = db_oracle(db)
    exe = build_driver('zone_sweep.cpp', 'fast')
    res = run_shards(exe, ['--db=' + db, '--oracle=' + opath, '--pid=' + pid.lower(), '--zone=' + zone], nshards=2, tier='quick', seed=0, timeout=1800)
    for k, d in res.violations[:10]:
        print('REPRODUCED', k, json.dumps(d))
    print('replay of zone %s: %d violation(s) on the current tree' % (zone, len(res.violations)))
    return 1 if res.violations or res.crashes else 0
