"""C01: extended zones equal zic at every instant of 2000..2049."""
import runner
from runner import Report, build_driver, run_shards
from dboracle import db_oracle

def run(tier, seed, pid='C01', db='zonedbx'):
    rep = Report(pid, tier, seed, 'exploration')
    path, zones, links, tabs, text = db_oracle(db)
    exe = build_driver('zone_sweep.cpp', 'fast')
    res = run_shards(exe, ['--db=' + db, '--oracle=' + path, '--pid=' + pid.lower()], tier=tier, seed=seed, timeout=7200)
    rep.absorb(res)
    c = rep.coverage
    nbp = sum(1 for z in zones for e in tabs[z][1:] if 0 <= e[0] < 1577923200)
    if c.get('breakpoints_probed', 0) != nbp or c.get('zones', 0) != len(zones):
        rep.violation(pid.lower() + ':coverage-mismatch', {'zones_swept': c.get('zones'), 'zones_in_source': len(zones),
                                                            'breakpoints_probed': c.get('breakpoints_probed'), 'oracle_breakpoints': nbp})
    rep.assumptions += [
        'oracle: system zic (glibc 2.36) on the Zone/Rule lines recorded in the comments of the shipped tables; TZif read by own reader + POSIX footer evaluator, cross-checked on every run against zdump -v and CPython zoneinfo',
        'DST-in-effect compared as isdst == (deltaMinutes != 0)',
        'quick tier: minute grid + t-2..t+2 s at every oracle breakpoint and UTC year/Jan-2 boundary; thorough tier: every second',
        'host LP64 build through the Arduino shim',
    ]
    extra = {
        'evaluations': c.get('instants', 0),
        'distinct_nontrivial': c.get('breakpoints_confirmed', 0),
        'rule': 'each zone of the compiled registry x each instant on the grid (%s); distinct_nontrivial = (zone, breakpoint) pairs where the oracle changes value and the implementation matched at t-2..t+2 s' % ('every second' if tier == 'thorough' else 'every minute'),
        'oracle_zones': len(zones), 'oracle_breakpoints_in_window': nbp,
    }
    return rep.finish(exhaustive=(tier == 'thorough'), extra=extra)

def replay(path):
    print(open(path).read())
    return 0
