"""C03: the TZ compiler preserves semantics end to end; nothing is silently dropped."""
import os, re, subprocess, tempfile, shutil, calendar
import runner
from runner import Report, Broken

TRUNC_NOTE = re.compile(r'truncat|granularity|rounded', re.I)

def zic_filter(text_blocks, tag):
    """text_blocks: list of (key, text). Drop blocks zic rejects (reported line numbers), return (kept_blocks, rejected_keys)."""
    from oracle import zicrun
    rejected = []
    blocks = list(text_blocks)
    for _ in range(200):
        lines, owner = [], []
        for k, t in blocks:
            for l in t.splitlines():
                lines.append(l); owner.append(k)
        d = tempfile.mkdtemp(prefix='verif-zicf-')
        try:
            src = os.path.join(d, 's.tz')
            open(src, 'w').write('\n'.join(lines) + '\n')
            r = subprocess.run([zicrun.ZIC, '-b', 'fat', '-d', os.path.join(d, 'o'), src], stdout=subprocess.PIPE, stderr=subprocess.PIPE, text=True)
        finally:
            shutil.rmtree(d, ignore_errors=True)
        if r.returncode == 0 and 'error' not in r.stderr:
            return blocks, rejected
        badk = set()
        for m in re.finditer(r'line (\d+): (?!warning)', r.stderr):
            n = int(m.group(1)) - 1
            if 0 <= n < len(owner):
                badk.add(owner[n])
        if not badk:
            raise Broken('zic failed without usable line numbers for %s: %s' % (tag, r.stderr[:500]))
        rejected += sorted(badk)
        blocks = [(k, t) for k, t in blocks if k not in badk]
    raise Broken('zic filter did not converge for ' + tag)

def run(tier, seed):
    from oracle import tzsrc, zicrun
    from pyexp import pipeline, semantics, mutants
    import gensweep
    rep = Report('C03', tier, seed, 'exploration')
    cov = dict(sources=0, configurations=0, zones_compared_python=0, zone_breakpoints_compared=0, zones_exempt_by_truncation_note=0, inputs_accounted=0,
               zones_removed_with_reason=0, compiler_raised=0, mutants=0, mutants_rejected_by_zic=0, arduino_zones_swept=0, arduino_instants=0)
    samples = []

    def do_source(tag, text, names, windows, scopes=('extended', 'basic'), arduino=None, labels=None, stricts=(False,)):
        """names: zone names to get zic tables for; labels: zone -> (seed, opclass) for violation keys"""
        cov['sources'] += 1
        lo = min(w[0] for w in windows); hi = max(w[1] for w in windows)
        tabs = zicrun.compile_text(text, names, lo=calendar.timegm((lo - 1, 1, 1, 0, 0, 0)), hi=calendar.timegm((hi + 1, 1, 1, 0, 0, 0)), crosscheck=(labels is None), tag=tag)
        tag0 = tag
        for (y0, y1), strict in [(w, st) for w in windows for st in stricts]:
            # strict=False is what tools/tzcompiler.py does by default (fields off the granularity are truncated and noted);
            # strict=True removes such zones/policies with a reason instead
            tag = tag0 + (':strict' if strict else '')
            for scope in scopes:
                cov['configurations'] += 1
                try:
                    comp = pipeline.compile_text(text, scope, start_year=y0, until_year=y1, strict=strict)
                except BaseException as e:
                    cov['compiler_raised'] += 1     # a source on which the compiler raises is "not accepted"
                    samples.append({'source': tag, 'scope': scope, 'compiler_raised': '%s: %s' % (type(e).__name__, str(e)[:120])})
                    continue
                for kind, n, why in semantics.accounting(comp):
                    rep.violation('c03:%s:%s:accounting:%s' % (tag, scope, why.replace(' ', '-')), {'kind': kind, 'name': n, 'window': [y0, y1]})
                cov['inputs_accounted'] += len(comp.in_zones) + len(comp.in_links) + len(comp.in_rules)
                cov['zones_removed_with_reason'] += len(comp.removed_zones)
                znames = sorted(comp.zone_infos)
                for n, diff, nb in semantics.compare(comp.zone_infos, tabs, znames, y0, y1):
                    cov['zones_compared_python'] += 1; cov['zone_breakpoints_compared'] += nb
                    if not diff:
                        continue
                    notes = ' '.join(str(x) for x in comp.notable_zones.get(n, []))
                    pol_notes = ' '.join(str(x) for e in comp.zones_map[n] for x in comp.notable_policies.get(e['rules'], []))
                    if TRUNC_NOTE.search(notes + ' ' + pol_notes):
                        cov['zones_exempt_by_truncation_note'] += 1
                        continue
                    lab = labels.get(n) if labels else None
                    key = 'c03:%s:%s:python:%s' % (tag, scope, ('%s:%s' % lab[:2]) if lab else n)
                    det = {'zone': n, 'window': [y0, y1], 'difference': diff, 'notes': notes[:200]}
                    if lab:
                        det['mutation'] = lab[2]; det['source_text'] = lab[3]
                    rep.violation(key, det)
                # links must denote their targets
                for l, t in comp.links_map.items():
                    if t not in comp.zones_map:
                        rep.violation('c03:%s:%s:link-to-missing-zone' % (tag, scope), {'link': l, 'target': t})
                    elif l in tabs and t in tabs and tabs[l] != tabs[t]:
                        rep.violation('c03:%s:%s:link-target-differs-from-zic' % (tag, scope), {'link': l, 'emitted_target': t})
                if arduino and (y0, y1) == windows[0] and strict == stricts[0]:
                    res, err = gensweep.sweep_generated(comp, tabs, 'c03', tier, seed, step=arduino.get('step'), win=arduino.get('win', 0))
                    if res is None and err.startswith('GENERATOR-RAISED'):
                        # the Python tables of this very compilation were emitted, so the source was accepted: the arduino
                        # generator failing on it is a defect, not a refusal
                        rep.violation('c03:%s:%s:arduino:generator-raised' % (tag, scope), {'error': err})
                    elif res is None:
                        rep.violation('c03:%s:%s:arduino:generated-code-does-not-compile' % (tag, scope), {'compiler': err[-1200:]})
                    else:
                        # re-key violations under this source
                        for k, dct in res.violations:
                            res_key = k.replace('c03:', 'c03:%s:%s:arduino:' % (tag, scope), 1)
                            zn = dct.get('zone') if isinstance(dct, dict) else None
                            notes = ' '.join(str(x) for x in comp.notable_zones.get(zn, [])) if zn else ''
                            if zn in comp.zones_map:
                                notes += ' ' + ' '.join(str(x) for e in comp.zones_map[zn] for x in comp.notable_policies.get(e['rules'], []))
                            if TRUNC_NOTE.search(notes):
                                continue
                            if labels and zn in labels:
                                res_key = 'c03:%s:%s:arduino:%s:%s' % (tag, scope, labels[zn][0], labels[zn][1]); dct = dict(dct, mutation=labels[zn][2])
                            rep.violation(res_key, dct)
                        for c_ in res.crashes:
                            m_ = re.search(r'zone (\S+)', str(c_.get('text', '')))
                            zc = m_.group(1) if m_ else None
                            rep.violation('c03:%s:%s:arduino:crash%s' % (tag, scope, (':%s:%s' % labels[zc][:2]) if labels and zc in labels else ''), c_)
                        cov['arduino_zones_swept'] += res.counts.get('zones', 0); cov['arduino_instants'] += res.counts.get('instants', 0)
        return tabs

    thorough = tier == 'thorough'
    # ---- S1: the vendored 2025b release, normalised; the normaliser is checked against zic on the original file
    text, zones, links, dropped = tzsrc.normalise_zi()
    names = zones + sorted(links)
    t_norm = zicrun.compile_text(text, names, tag='S1')
    t_orig = zicrun.compile_text(open('/usr/share/zoneinfo/tzdata.zi').read(), names, tag='S1-original', crosscheck=False)
    lo2000 = calendar.timegm((2000, 1, 1, 0, 0, 0)) - 946684800
    def from2000(t):
        cur = [r for r in t if r[0] <= lo2000][-1]
        return [(lo2000,) + tuple(cur[1:])] + [r for r in t if r[0] > lo2000]
    bad = [n for n in names if from2000(t_norm[n]) != from2000(t_orig[n])]
    if bad:
        raise Broken('tzdata.zi normaliser changes the meaning of %d zones, e.g. %s' % (len(bad), bad[:3]))
    cov['s1_zones'] = len(zones); cov['s1_links'] = len(links); cov['s1_dropped_by_normaliser'] = sorted(dropped)
    do_source('S1-2025b', text, names, [(2000, 2050)] + ([(2000, 2038), (2010, 2030)] if thorough else []), stricts=(False, True),
              arduino={'step': 60 if thorough else 3600, 'win': 0 if thorough else 3 * 3600})
    if thorough:
        # windows reaching back before 2000 (the compiler accepts any start year): python language only
        do_source('S1-2025b', text, names, [(1980, 2050), (1990, 2030), (2005, 2049)])
    # ---- S2: sources reconstructed from the three shipped databases
    for db in ('zonedbx', 'zonedb'):
        t2, z2, l2 = tzsrc.reconstruct_cpp(os.path.join(runner.REPO, 'src/ace_time', db))
        do_source('S2-' + db, t2, z2 + sorted(l2), [(2000, 2050)], scopes=('extended',) if db == 'zonedbx' else ('extended', 'basic'))
    t3, z3, l3 = tzsrc.reconstruct_py(os.path.join(runner.REPO, 'tools/zonedbpy'))
    do_source('S2-zonedbpy', t3, z3, [(2000, 2038)])
    # ---- S3: bounded mutation family
    fam = mutants.family(two=thorough)
    # both tiers take the whole one-deviation family (a seed-rotated third missed D15 on two seeds out of three);
    # thorough adds the two-deviation family
    blocks = [(m[0], m[3]) for m in fam]
    kept, rejected = zic_filter(blocks, 'S3')
    keptset = {k for k, _ in kept}
    cov['mutants'] = len(keptset); cov['mutants_rejected_by_zic'] = len(rejected)
    labels = {m[4]: (m[1], m[2].split('=')[0].split(',')[0].split('.')[-1] if m[2] != 'seed' else 'seed', m[2], m[3]) for m in fam if m[0] in keptset}
    text3 = '\n'.join(t for _, t in kept) + '\n'
    do_source('S3-mutants', text3, sorted(labels), [(2000, 2050)] + ([(2000, 2038), (2010, 2030)] if thorough else [(2010, 2030)]),
              labels=labels, stricts=(False, True), arduino=({'step': 3600, 'win': 3 * 3600} if thorough else {'step': 4 * 3600, 'win': 2 * 3600}))
    # ---- S4: era chains with whole-year UNTIL (the multi-era shape the basic scope admits), exhaustive products
    rules4, chains = mutants.era_chains()
    kept4, rej4 = zic_filter([('rules', rules4)] + [(i, c[3]) for i, c in enumerate(chains)], 'S4')
    kept4set = {k for k, _ in kept4}
    if 'rules' not in kept4set:
        raise Broken('zic rejects the era-chain policies')
    kept4set.discard('rules')
    cov['era_chains'] = len(kept4set); cov['era_chains_rejected_by_zic'] = len(rej4)
    labels4 = {c[4]: (c[0], c[1], c[2], rules4 + '\n' + c[3]) for i, c in enumerate(chains) if i in kept4set}   # self-contained source per zone
    text4 = rules4 + '\n' + '\n'.join(c[3] for i, c in enumerate(chains) if i in kept4set) + '\n'
    do_source('S4-erachains', text4, sorted(labels4), [(2000, 2050)] + ([(2006, 2040)] if thorough else []),
              labels=labels4, arduino=({'step': 900, 'win': 3 * 3600} if thorough else {'step': 3600, 'win': 2 * 3600}))
    samples += [{'era_chain': labels4[z][2], 'source_text': labels4[z][3].split('\n', 8)[-1]} for z in sorted(labels4)[200:202]]
    # ---- S5: one transition close to the year boundary (UTC-year keyed cache of the basic processor), exhaustive product
    edge = mutants.year_boundary()
    kept5, rej5 = zic_filter([(i, c[3]) for i, c in enumerate(edge)], 'S5')
    kept5set = {k for k, _ in kept5}
    cov['year_edge_zones'] = len(kept5set); cov['year_edge_rejected_by_zic'] = len(rej5)
    labels5 = {c[4]: (c[0], c[1], c[2], c[3]) for i, c in enumerate(edge) if i in kept5set}
    text5 = '\n'.join(c[3] for i, c in enumerate(edge) if i in kept5set) + '\n'
    do_source('S5-yearedge', text5, sorted(labels5), [(2000, 2050)],
              labels=labels5, arduino=({'step': 900, 'win': 3 * 3600} if thorough else {'step': 3600, 'win': 2 * 3600}))
    # ---- S6: fields off the table granularity - the truncation (non-strict) and removal (strict) paths
    g6 = mutants.granularity_source()
    kept6, rej6 = zic_filter([(i, c[3]) for i, c in enumerate(g6)], 'S6')
    k6 = {k for k, _ in kept6}
    cov['granularity_zones'] = len(k6)
    labels6 = {c[4]: (c[0], c[1], c[2], c[3]) for i, c in enumerate(g6) if i in k6}
    do_source('S6-granularity', '\n'.join(c[3] for i, c in enumerate(g6) if i in k6) + '\n', sorted(labels6), [(2000, 2050)], labels=labels6, stricts=(False, True),
              arduino={'step': 3600, 'win': 2 * 3600})
    # ---- S12: a policy left by one zone and picked up again by another, with one-off rules inside the gap
    t12, z12 = mutants.rejoin_source()
    do_source('S12-rejoin', t12, z12, [(2000, 2050)], arduino={'step': 6 * 3600, 'win': 3600})
    # ---- S11: the layouts zic accepts for the same zone
    for var, t11, z11, l11 in mutants.layout_source():
        tabs11 = do_source('S11-layout-' + var, t11, z11 + sorted(l11), [(2000, 2050)])
        # all variants are the same zone: zic must see two eras in each (guards the family itself)
        if len({r[1] for r in tabs11[z11[0]]}) < 3:
            raise Broken('layout variant %s is not a two-era zone for zic' % var)
    # ---- S10: Link lines in every relation to zones and to each other
    t10, z10, l10 = mutants.link_source()
    do_source('S10-links', t10, z10 + sorted(l10), [(2000, 2050)], arduino={'step': 6 * 3600, 'win': 3600})
    # ---- S9: 3..9 eras inside one year (kMaxMatches)
    e9 = mutants.many_eras()
    labels9 = {c[4]: (c[0], c[1], c[2], c[3]) for c in e9}
    do_source('S9-eras', '\n'.join(c[3] for c in e9) + '\n', sorted(labels9), [(2000, 2050)], labels=labels9, arduino={'step': 3600, 'win': 2 * 3600})
    # ---- S8: FORMAT x LETTER product (abbreviation assembly)
    f8 = mutants.format_letters()
    kept8, rej8 = zic_filter([(i, c[3]) for i, c in enumerate(f8)], 'S8')
    k8 = {k for k, _ in kept8}
    cov['format_letter_zones'] = len(k8)
    labels8 = {c[4]: (c[0], c[1], c[2], c[3]) for i, c in enumerate(f8) if i in k8}
    do_source('S8-format', '\n'.join(c[3] for i, c in enumerate(f8) if i in k8) + '\n', sorted(labels8), [(2000, 2050)], labels=labels8, arduino={'step': 6 * 3600, 'win': 3600})
    # ---- S7: policies with 3..12 transitions per year - what the compiler emits must fit the processors' buffers
    d7 = mutants.dense_policies()
    labels7 = {c[4]: (c[0], c[1], c[2], c[3]) for c in d7}
    do_source('S7-dense', '\n'.join(c[3] for c in d7) + '\n', sorted(labels7), [(2000, 2050)], labels=labels7, arduino={'step': 3600, 'win': 2 * 3600})
    samples += [{'mutant': labels[z][2], 'seed': labels[z][0], 'source_text': labels[z][3]} for z in sorted(labels)[100:103]]
    rep.coverage.update(cov)
    rep.assumptions += [
        'S1 = /usr/share/zoneinfo/tzdata.zi (2025b) expanded to the classic layout; %z spelled out numerically; zones whose %z needs two DST spellings are dropped and listed; the normaliser is checked on every run against zic on the original file from 2000 on',
        'python language: InlineGenerator maps interpreted by ZoneSpecifier, transitions of every year compared with the zic table as piecewise-constant functions (exact, no sampling)',
        'arduino language: generated zone_*.cpp compiled under a private namespace against /repo/src and swept by the C01/C02 driver (S1: %s; S3: %s)' % ('every minute' if thorough else 'hourly grid + every minute within 3 h of each zic transition + second probes', 'hourly grid + 3 h windows' if thorough else '4 h grid + every minute within 2 h of each zic transition + second probes'),
        'every source is compiled non-strict (the tzcompiler default: off-granularity fields truncated and noted) and S1/S3/S6 also strict (such zones removed with a reason); a zone whose notable_* comment (its own or of a policy it uses) mentions truncation/granularity is exempt from the equality check, and only such zones; a source on which the compiler raises counts as not accepted',
        'mutants rejected by zic are outside the quantifier and counted',
    ]
    return rep.finish(exhaustive=False, extra={'evaluations': cov['zones_compared_python'] + cov['arduino_zones_swept'], 'distinct_nontrivial': cov['zone_breakpoints_compared'],
        'samples': samples[:8] or ['(none)'],
        'rule': 'each (source, window, scope): every emitted zone compared with zic over [start_year, until_year); every input zone/link/policy accounted as emitted xor removed-with-reason; distinct_nontrivial = zic breakpoints matched exactly by the python-language interpretation'})

def replay(path):
    print(open(path).read()); return 0
