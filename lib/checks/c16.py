"""C16: TimeZone is a faithful value (save/restore, manual offsets, equality)."""
from runner import Report, build_driver, run_shards

def run(tier, seed):
    rep = Report('C16', tier, seed, 'model_checking')
    exe = build_driver('c16_tzvalue.cpp', 'fast')
    res = run_shards(exe, [], tier=tier, seed=seed, timeout=1800)
    rep.absorb(res)
    c = rep.coverage
    rep.assumptions += ['unknown TimeZoneData::type bytes are not part of the statement', 'answers compared on a 24-instant grid (offset, DST offset, abbreviation, printed name); per-instant correctness is C01/C02',
                        'two time zones of different kinds (direct vs manager-created) for the same zone are expected to be unequal, as the statement says (same kind)']
    tr = c.get('zone_restores', 0) + c.get('save_evict_restore_histories', 0) + c.get('manual_zones', 0) + c.get('equality_pairs', 0)
    return rep.finish(exhaustive=True, extra={'states': c.get('zones', 0) * 4 + c.get('manual_zones', 0) + 1, 'transitions': tr, 'traces_validated_against_impl': tr,
        'rule': 'every zone of both registries x 4 creation paths x {same manager, manager lacking the zone, other database manager}; 8 save/use/evict/restore orders per zone on a 1-slot manager; manual (std,dst) grid incl. +-1 and +-32767; error zone; equality matrix over all kinds'})

def replay(path):
    print(open(path).read()); return 0
