"""C02: basic zones equal zic, and equal the extended processor on shared zones."""
from checks import c01

def run(tier, seed):
    return c01.run(tier, seed, pid='C02', db='zonedb')

def replay(path):
    return c01.replay(path, pid='C02', db='zonedb')
