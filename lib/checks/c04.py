"""C04: Python ZoneSpecifier and the C++ extended processor are observationally equal; Python options do not matter."""
import os, glob
import runner
from runner import Report, build_driver, run_shards
from dboracle import db_oracle
import tabledump

def run(tier, seed):
    from pyexp import equiv
    rep = Report('C04', tier, seed, 'exploration')
    thorough = tier == 'thorough'
    path, zones, links, tabs, text = db_oracle('zonedbx')
    exe = build_driver('c04_dump.cpp', 'fast')
    prefix = os.path.join(runner.BUILD, 'c04-%d' % os.getpid())
    nsh = runner.NCPU
    try:
        res = run_shards(exe, ['--oracle=' + path, '--out=' + prefix, '--win=%d' % (200 if thorough else 120)], nshards=nsh, tier=tier, seed=seed, timeout=3600)
        rep.absorb(res)
        cxx, locs = equiv.load_cxx(prefix, nsh)
    finally:
        for f in glob.glob(prefix + '.*'):
            os.remove(f)
    dump = tabledump.dump(os.path.join(runner.REPO, 'src/ace_time/zonedbx'), 'zonedbx', True)
    infos = equiv.decode_to_python(dump)
    order = [(z['index'], z['name']) for z in dump['zones']]
    if not thorough:
        order_q = order   # all zones, default grid
    n_tab = n_q = n_loc = n_bp = 0
    for name, viol, a, b, c_, nb in equiv.compare(infos, cxx, locs, order, 2000, 2050, grid=(86400 if thorough else 30 * 86400), all_opts_local=thorough):
        n_tab += a; n_q += b; n_loc += c_; n_bp += nb
        for k, d in viol:
            rep.violation('c04:%s:%s' % (k, name), d)
    c = rep.coverage
    c.update(python_tables=n_tab, python_second_queries=n_q, python_local_queries=n_loc, zones_compared=len(order), cxx_rows=n_bp)
    rep.assumptions += [
        'both sides see the compiled zonedbx table: the C++ table is decoded through the brokers into the tools\' data model (no source text involved)',
        'C++ side = exact change-point table from a walk over every minute of 2000..2049 with bisection to the second; Python side = ZoneSpecifier.transitions of every year under all 8 option combinations (viewing_months 13/14 x candidate finder x selector), compared row by row (offset, DST offset, abbreviation)',
        'local date-times: every minute within %d min of every transition; Python total offset of the selected transition vs (local-as-UTC - C++ result epoch); %s' % (200 if thorough else 120, 'all 8 option sets' if thorough else 'default and most different option set'),
        'freshly compiled sources are compared with zic through both languages in C03',
    ]
    return rep.finish(exhaustive=True, extra={'evaluations': n_q + n_loc + n_tab, 'distinct_nontrivial': n_bp,
        'samples': [{'zone': 'America/Los_Angeles', 'cxx_rows': cxx.get('America/Los_Angeles', [])[:3]}],
        'rule': 'every zonedbx zone x every year x 8 option sets (table equality) + get_timezone_info_for_seconds at every change point -1/0/+1 s and on a grid + get_timezone_info_for_datetime at every minute near every transition; distinct_nontrivial = C++ change points'})

def replay(path):
    print(open(path).read()); return 0
