"""C04: Python ZoneSpecifier and the C++ extended processor are observationally equal; Python options do not matter."""
import os, glob
import runner
from runner import Report, build_driver, run_shards
from dboracle import db_oracle
import tabledump

def run(tier, seed):
    from pyexp import equiv
    rep = Report('C04', tier, seed, 'exploration')
    thorough = tier == 'thorough'
    path, zones, links, tabs, text = db_oracle('zonedbx')
    exe = build_driver('c04_dump.cpp', 'fast')
    prefix = os.path.join(runner.BUILD, 'c04-%d' % os.getpid())
    nsh = runner.NCPU
    try:
        res = run_shards(exe, ['--oracle=' + path, '--out=' + prefix, '--win=%d' % (200 if thorough else 120)], nshards=nsh, tier=tier, seed=seed, timeout=3600)
        rep.absorb(res)
        cxx, locs = equiv.load_cxx(prefix, nsh)
    finally:
        for f in glob.glob(prefix + '.*'):
            os.remove(f)
    dump = tabledump.dump(os.path.join(runner.REPO, 'src/ace_time/zonedbx'), 'zonedbx', True)
    infos = equiv.decode_to_python(dump)
    order = [(z['index'], z['name']) for z in dump['zones']]
    if not thorough:
        order_q = order   # all zones, default grid
    n_tab = n_q = n_loc = n_bp = 0
    for name, viol, a, b, c_, nb in equiv.compare(infos, cxx, locs, order, 2000, 2050, grid=(86400 if thorough else 30 * 86400), all_opts_local=thorough):
        n_tab += a; n_q += b; n_loc += c_; n_bp += nb
        for k, d in viol:
            rep.violation('c04:%s:%s' % (k, name), d)
    # ---- freshly compiled sources: era-chain / year-edge products (and the S3 one-deviation family in the thorough tier) compiled
    # by the real pipeline into BOTH languages; the generated C++ tables (namespace vdb) against the in-memory Python tables
    fr = fresh(rep, tier, seed)
    n_tab += fr[0]; n_q += fr[1]; n_loc += fr[2]; n_bp += fr[3]
    c = rep.coverage
    c.update(fresh_zones_compared=fr[4], fresh_years='%d..%d' % fr[5])
    c.update(python_tables=n_tab, python_second_queries=n_q, python_local_queries=n_loc, zones_compared=len(order), cxx_rows=n_bp)
    rep.assumptions += [
        'both sides see the compiled zonedbx table: the C++ table is decoded through the brokers into the tools\' data model (no source text involved)',
        'C++ side = exact change-point table from a walk over every minute of 2000..2049 with bisection to the second; Python side = ZoneSpecifier.transitions of every year under all 8 option combinations (viewing_months 13/14 x candidate finder x selector), compared row by row (offset, DST offset, abbreviation)',
        'local date-times: every minute within %d min of every transition; Python total offset of the selected transition vs (local-as-UTC - C++ result epoch); %s' % (200 if thorough else 120, 'all 8 option sets' if thorough else 'default and most different option set'),
        'freshly compiled sources: the C03 era-chain products (quick: years 2004..2014, plus the year-edge zones whose AT is in UTC; thorough: + whole year-edge product + S3 one-deviation family, 2000..2049) compiled once by the real pipeline into generated C++ tables and in-memory Python tables, compared the same way; both are also compared with zic in C03',
    ]
    return rep.finish(exhaustive=True, extra={'evaluations': n_q + n_loc + n_tab, 'distinct_nontrivial': n_bp,
        'samples': [{'zone': 'America/Los_Angeles', 'cxx_rows': cxx.get('America/Los_Angeles', [])[:3]}],
        'rule': 'every zonedbx zone x every year x 8 option sets (table equality) + get_timezone_info_for_seconds at every change point -1/0/+1 s and on a grid + get_timezone_info_for_datetime at every minute near every transition; distinct_nontrivial = C++ change points'})

def fresh(rep, tier, seed):
    import calendar, tempfile, shutil
    from pyexp import equiv, mutants, pipeline
    from oracle import zicrun
    thorough = tier == 'thorough'
    rules, chains = mutants.era_chains()
    blocks = [rules] + [c[3] for c in chains]
    names = [c[4] for c in chains]
    # violation keys name the input class (family, STDOFF sequence, RULES kinds / UNTIL form), not the running zone number
    label = {c[4]: (c[0], '_'.join(c[2].split(' until ')[0].split(' ')[:-1]), c[1]) for c in chains}
    src = {c[4]: rules + '\n' + c[3] for c in chains}   # self-contained source per zone
    if not thorough:
        # quick: the year-edge zones whose AT is given in UTC (those move across the year boundary with the zone's offset)
        edge = [c for c in mutants.year_boundary() if c[2].split(' ')[2].endswith('u')]
        blocks += [c[3] for c in edge]; names += [c[4] for c in edge]
        label.update({c[4]: (c[0], c[1]) for c in edge}); src.update({c[4]: c[3] for c in edge})
    if thorough:
        edge = mutants.year_boundary()
        blocks += [c[3] for c in edge]; names += [c[4] for c in edge]
        label.update({c[4]: (c[0], c[1]) for c in edge}); src.update({c[4]: c[3] for c in edge})
        from checks.c03 import zic_filter
        fam = mutants.family(two=False)
        kept, _ = zic_filter([(m[0], m[3]) for m in fam], 'c04-S3')
        ks = {k for k, _ in kept}
        blocks += [m[3] for m in fam if m[0] in ks]; names += [m[4] for m in fam if m[0] in ks]
        label.update({m[4]: ('S3', m[1], m[2].split('=')[0].split('.')[-1]) for m in fam}); src.update({m[4]: m[3] for m in fam})
    text = '\n'.join(blocks) + '\n'
    y0, y1 = (2000, 2050) if thorough else (2004, 2015)
    comp = pipeline.compile_text(text, 'extended', start_year=2000, until_year=2050)
    emitted = sorted(comp.zone_infos)
    tabs = zicrun.compile_text(text, emitted, lo=calendar.timegm((1999, 1, 1, 0, 0, 0)), hi=calendar.timegm((2051, 1, 1, 0, 0, 0)), crosscheck=False, tag='c04-fresh')
    d = tempfile.mkdtemp(prefix='verif-c04gen-')
    prefix = os.path.join(runner.BUILD, 'c04f-%d' % os.getpid())
    opath = prefix + '.oracle'
    nsh = runner.NCPU
    try:
        pipeline.generate(comp, 'arduino', d, db_namespace='vdb')
        zicrun.write_tables(tabs, emitted, opath)
        srcs = [os.path.join(d, f) for f in ('zone_infos.cpp', 'zone_policies.cpp', 'zone_registry.cpp')]
        exe = build_driver('c04_dump.cpp', 'fast', extra_srcs=srcs, extra_flags=['-DVERIF_GEN_NS=vdb', '-DVERIF_GEN_EXT=1'], extra_inc=[d], strict=True)
        res = run_shards(exe, ['--oracle=' + opath, '--out=' + prefix, '--win=%d' % (200 if thorough else 120), '--y0=%d' % y0, '--y1=%d' % y1], nshards=nsh, tier=tier, seed=seed, timeout=7200)
        rep.absorb(res)
        cxx, locs = equiv.load_cxx(prefix, nsh)
        order = []
        for i in range(nsh):
            k = 0
            for line in open('%s.%d.brk' % (prefix, i)):
                if line[0] == 'Z':
                    order.append((i + k * nsh, line.split()[1])); k += 1
    finally:
        shutil.rmtree(d, ignore_errors=True)
        for f in glob.glob(prefix + '.*'):
            os.remove(f)
    order.sort()
    over = {n for n, rows in cxx.items() if rows and rows[0] == 'over-capacity'}
    rep.coverage['fresh_zones_beyond_processor_capacity_not_compared'] = sorted(label[n][-1] if n in label else n for n in over)[:20]
    if [n for _, n in order] != emitted:
        raise runner.Broken('generated registry does not list the emitted zones: %d vs %d' % (len(order), len(emitted)))
    n_tab = n_q = n_loc = n_bp = 0
    order = [(i, n) for i, n in order if n not in over]
    for name, viol, a, b, c_, nb in equiv.compare(comp.zone_infos, cxx, locs, order, y0, y1, grid=(86400 if thorough else 30 * 86400), all_opts_local=thorough):
        n_tab += a; n_q += b; n_loc += c_; n_bp += nb
        for k, dd in viol:
            rep.violation('c04:fresh:%s:%s' % (k, ':'.join(label[name])), dict(dd, source_text=src[name]))
    return n_tab, n_q, n_loc, n_bp, len(order), (y0, y1)

def replay(path):
    print(open(path).read()); return 0
