"""C14: SystemClockLoop sync state machine, BFS on the real class."""
import os
import runner
from runner import Report, build_driver, run_shards

def run(tier, seed):
    rep = Report('C14', tier, seed, 'model_checking')
    exe = build_driver('c14_syncloop.cpp', 'fast')
    res = run_shards(exe, [], nshards=32, tier=tier, seed=seed, timeout=3000)
    rep.absorb(res)
    # ---- companion: TLA+ model checked by TLC, every edge of its state graph replayed against the implementation
    import tlaconf
    nodes, edges, init, summ = tlaconf.run_tlc()
    c = rep.coverage
    if nodes is None:
        rep.violation('c14:tla-model-invariant:' + summ['model_invariant_violated'], summ)
    else:
        tp = os.path.join(runner.BUILD, 'c14-traces-%d.txt' % os.getpid())
        try:
            n_edges, depth = tlaconf.trace_file(nodes, edges, init, tp)
            exe2 = build_driver('c14_conform.cpp', 'fast')
            res2 = run_shards(exe2, ['--traces=' + tp], nshards=8, tier=tier, seed=seed, timeout=1800)
            rep.absorb(res2)
        finally:
            if os.path.exists(tp):
                os.remove(tp)
        c['tla_model_states'] = summ['distinct']; c['tla_model_transitions'] = len(edges); c['tla_model_depth'] = depth
        if c.get('model_edges_replayed', 0) != len(edges):
            rep.violation('c14:conformance-incomplete', {'edges': len(edges), 'replayed': c.get('model_edges_replayed', 0)})
    rep.assumptions += [
        'companion model: tla/SyncLoop.tla (configuration 8 s / 1 s / 1000 ms, steps {500, 1000, 8000} ms x answers {valid, invalid, not ready}) is explored exhaustively by TLC with the invariants TypeOK, Spacing, PeriodBound, Liveness; every edge of the dumped state graph is replayed on the real SystemClockLoop from a fresh object (BFS-tree path to the source state + the edge) and status, retry period, request age, sync age, "request sent" and "response applied" must equal the model\'s successor state',
        'real SystemClockLoop subclass overriding clockMillis(); scripted reference clock (counts sendRequest/readResponse) and backup clock; private FSM fields read through the friend name SystemClockLoopTest_loop',
        'event = advance by one of {1 ms, timeout/2, timeout, 1 s, initial period, sync period, 2 x sync period} then loop() with the reference answering {ready+valid, ready+valid(+3 s), not ready, ready+invalid}',
        'time keeping is judged only while consecutive loop() calls are <= 64,536 ms apart (C13 bound); a valid answer equal to the current reading is a no-op for the phase (see C13 known finding)',
        'unsigned long is 64-bit on this host: 32-bit millis() wrap of mRequestStartMillis/mLastSyncMillis is approximated by one configuration starting 4.3 s below 2^32 only',
        'canonical state: every time quantity relative to now and capped just above the largest threshold it is compared with, which makes the state space finite without merging states that differ in any future verdict; with the 1 ms step it is still too large, so that exploration is depth-bounded (400k-state cap per configuration); a second exploration without the 1 ms step runs to fixpoint where it fits under the state cap',
    ]
    return rep.finish(exhaustive=False, extra={
        'states': c.get('states', 0) + c.get('coarse_states', 0), 'transitions': c.get('transitions', 0) + c.get('coarse_transitions', 0), 'traces_validated_against_impl': c.get('executions', 0) + c.get('model_edges_replayed', 0),
        'rule': '8 (syncPeriod, initialPeriod, timeout) configurations x 4 wirings; BFS over event sequences with canonical-state deduplication (implementation FSM fields relative to now + reference-model obligations) to depth %s; then the same configurations over the alphabet without the 1 ms step, explored until the (finite, capped) state space is exhausted or a state cap is hit: %d of %d configurations reached the fixpoint (all schedules of any length over that alphabet)' % (c.get('max_depth'), c.get('coarse_configs_to_fixpoint', 0), c.get('configs', 0)),
    })

def replay(path):
    print(open(path).read()); return 0
