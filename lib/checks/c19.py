"""C19: reference-data generators bracket every library transition and render losslessly."""
import os, re, sys, json, tempfile, shutil, subprocess
import runner
from runner import Report, Broken

def ranges_for(tier):
    if tier == 'thorough':
        return [(a, b) for a in range(2000, 2038) for b in range(a + 1, 2039)]
    return [(2000, b) for b in range(2001, 2039)] + [(a, 2038) for a in range(2001, 2038)]

def render_and_read_back(rep, validation_data, cov):
    """ArduinoValidationGenerator -> validation_data.cpp compiled against ValidationDataType.h -> every item read back"""
    from validation.arvalgenerator import ArduinoValidationGenerator
    from tzdb.transformer import normalize_name
    d = tempfile.mkdtemp(prefix='verif-c19-')
    try:
        ArduinoValidationGenerator(invocation='verif', tz_version='verif', scope='extended', db_namespace='vdb', validation_data=validation_data, blacklist={}).generate_files(d)
        names = sorted(validation_data['test_data'])
        with open(os.path.join(d, 'reader.cpp'), 'w') as f:
            f.write('#include <stdio.h>\n#include <ace_time/testing/ValidationDataType.h>\n#include "validation_data.h"\nusing namespace ace_time;\n')
            f.write('struct R { const char* name; const testing::ValidationData* d; };\nstatic const R rows[] = {\n')
            for n in names:
                f.write('  {"%s", &vdb::kValidationData%s},\n' % (n, normalize_name(n)))
            f.write('};\nint main() { for (const R& r : rows) { printf("Z %s %u\\n", r.name, r.d->numItems); for (unsigned i = 0; i < r.d->numItems; i++) { const testing::ValidationItem& v = r.d->items[i];\n'
                    '  printf("I %d %d %d %d %u %u %u %u %u %c %s\\n", v.epochSeconds, v.timeOffsetMinutes, v.deltaOffsetMinutes, v.year, v.month, v.day, v.hour, v.minute, v.second, v.type, v.abbrev ? v.abbrev : "(null)"); } } return 0; }\n')
        exe = os.path.join(d, 'reader')
        r = subprocess.run(['g++', '-std=gnu++11', '-O0', '-w', '-DUNIX_HOST_DUINO', '-I', os.path.join(runner.VERIF, 'cxx/shim'), '-I', os.path.join(runner.REPO, 'src'), '-I', d,
                            os.path.join(d, 'reader.cpp'), os.path.join(d, 'validation_data.cpp'), '-o', exe], stdout=subprocess.PIPE, stderr=subprocess.PIPE, text=True)
        if r.returncode != 0:
            rep.violation('c19:render:generated-validation-data-does-not-compile', {'compiler': r.stderr[-1200:]}); return
        out = subprocess.run([exe], stdout=subprocess.PIPE, text=True).stdout.splitlines()
        cur, got = None, {}
        for l in out:
            p = l.split(' ')
            if p[0] == 'Z':
                cur = got.setdefault(p[1], []); 
                if int(p[2]) != len(validation_data['test_data'][p[1]]):
                    rep.violation('c19:render:numItems', {'zone': p[1], 'numItems': int(p[2]), 'items': len(validation_data['test_data'][p[1]])})
            else:
                cur.append(p[1:])
        for n in names:
            items = validation_data['test_data'][n]
            if len(got.get(n, [])) != len(items):
                rep.violation('c19:render:item-count', {'zone': n}); continue
            for it, g in zip(items, got[n]):
                cov['rendered_items'] += 1
                exp = [str(it['epoch']), str(int(it['total_offset'] / 60)), str(int(it['dst_offset'] / 60)), str(it['y']), str(it['M']), str(it['d']), str(it['h']), str(it['m']), str(it['s']), it['type'], it['abbrev'] or '(null)']
                lossless = it['total_offset'] % 60 == 0 and it['dst_offset'] % 60 == 0
                if not lossless:
                    cov['rendered_items_not_minute_aligned'] += 1; continue
                if exp != g:
                    rep.violation('c19:render:item-differs', {'zone': n, 'item': exp, 'compiled': g}); break
    finally:
        shutil.rmtree(d, ignore_errors=True)

def run(tier, seed):
    from pyexp import refdata
    import pytz
    rep = Report('C19', tier, seed, 'exploration')
    thorough = tier == 'thorough'
    cov = dict(zones_pytz=0, zones_dateutil=0, generator_runs=0, items_checked=0, transitions_required=0, transitions_too_close_not_claimed=0, samples_required=0, rendered_items=0, rendered_items_not_minute_aligned=0)
    rng = ranges_for(tier)
    zones = sorted(pytz.all_timezones)
    special = ['Asia/Dhaka', 'Pacific/Apia', 'America/Caracas', 'Asia/Pyongyang', 'Africa/Casablanca', 'Australia/Lord_Howe']
    if thorough:
        zsel = zones
    else:
        zsel = sorted(set(zones[seed % 8::8]) | set(special))
    jobs = [(z, rng, 22, True) for z in zsel]
    if not thorough:
        # every zone of the installed pytz at least over the full range and one inner range
        jobs += [(z, [(2000, 2038), (2005, 2012)], 22, True) for z in zones if z not in zsel]
    if not thorough:
        # zones with transitions at the very end of a year: all 741 (start, until) pairs (grid phase x end of range)
        jobs += [(z, ranges_for('thorough'), 22, True) for z in special]
    if thorough:
        slice_q = ranges_for('quick')
        jobs += [(z, slice_q, 12, True) for z in zsel] + [(z, slice_q, 23, False) for z in zsel]
    else:
        jobs += [(z, [(2000, 2038), (2005, 2012)], 12, False) for z in zsel[::3]]
    # intervals whose multiples straddle close pairs of cancelling transitions (e.g. 6.96 days apart in Oct 2000): every zone
    for iv in (34, 40, 43, 56):
        jobs += [(z, [(2000, 2038)] if not thorough else [(2000, 2038), (2001, 2012)], iv, False) for z in zones]
    # intervals of a day and more (the arithmetic on the window width changes character at 24 h)
    for iv in (24, 30, 48, 72):
        jobs += [(z, [(2000, 2038), (2007, 2011)], iv, iv == 30) for z in (zsel if thorough else sorted(set(zsel[1::3]) | set(special)))]
    # split long range lists so that the pool stays balanced
    jobs = [(z, r[i:i + 40], iv, dd) for (z, r, iv, dd) in jobs for i in range(0, len(r), 40)]
    for name, viol, nviol, st in refdata.run_pool(refdata._check_zone_pytz, jobs):
        cov['generator_runs'] += st['runs']; cov['items_checked'] += st['items']; cov['transitions_required'] += st['transitions_required']
        cov['transitions_too_close_not_claimed'] += st['transitions_too_close_not_claimed']; cov['samples_required'] += st['samples_required']
        for k, d in viol:
            rep.violation('c19:pytz:%s' % k, d)
        if nviol > len(viol):
            rep.viol_n['c19:pytz:transition-not-bracketed'] = rep.viol_n.get('c19:pytz:transition-not-bracketed', 0) + nviol - len(viol)
    cov['zones_pytz'] = len(zsel)
    # dateutil (slower): fewer zones / ranges
    dz = sorted(set(zsel[seed % 4::4]) | set(special)) if thorough else sorted(set(zones[seed % 16::16]) | set(special))
    drng = ranges_for('quick') if thorough else [(2000, 2038), (2000, 2010), (2003, 2010), (2008, 2010), (2009, 2038)]
    djobs = [(z, [r], 22, True) for z in dz for r in drng]
    if not thorough:
        djobs += [(z, [(2000, 2038)], 22, True) for z in zones if z not in dz]      # every zone once through the dateutil generator
    for name, viol, nviol, st in refdata.run_pool(refdata._check_zone_dateutil, djobs):
        cov['generator_runs'] += st['runs']; cov['items_checked'] += st['items']; cov['transitions_required'] += st['transitions_required']
        cov['transitions_too_close_not_claimed'] += st['transitions_too_close_not_claimed']; cov['samples_required'] += st['samples_required']
        for k, d in viol:
            rep.violation('c19:dateutil:%s' % k, d)
    cov['zones_dateutil'] = len(dz)
    # rendering
    from compare_pytz.tdgenerator import TestDataGenerator
    g = TestDataGenerator(2000, 2038, 22, True)
    rz = zsel if thorough else zsel[::4]
    g.create_test_data(rz)
    vd = g.get_validation_data()
    if sorted(vd['test_data']) != sorted(rz):
        rep.violation('c19:create_test_data-dropped-zones', {'missing': sorted(set(rz) - set(vd['test_data']))[:5]})
    render_and_read_back(rep, vd, cov)
    rep.coverage.update(cov)
    rep.assumptions += ['completeness oracle = the library\'s own transition table (pytz: _utc_transition_times/_transition_info; dateutil: tzfile _trans_list_utc/_trans_idx), bounded by the installed versions (pytz %s)' % pytz.__version__,
                        'a transition with another transition closer than the sampling interval cannot be found by interval sampling by construction; such transitions are counted as not claimed',
                        'ranges: %s; sampling intervals 22 h (default) plus slices at 12, 23, 24, 30, 34, 40, 43, 48, 56 and 72 h' % ('all 741 (start, until) pairs within 2000..2038' if thorough else 'all until-years with start=2000 and all start-years with until=2038'),
                        'dateutil (much slower): every 4th zone x both axes in the thorough tier; quick tier: every 8th pytz zone (seed-rotated) + 6 zones with year-end / unusual transitions (these with all 741 ranges); every 16th zone for dateutil',
                        'rendering is lossless for minute-aligned offsets only (all of 2000..2037); other items are counted']
    return rep.finish(exhaustive=thorough, extra={'evaluations': cov['items_checked'] + cov['rendered_items'], 'distinct_nontrivial': cov['transitions_required'],
        'samples': [{'zone': 'Asia/Dhaka', 'range': [2003, 2010], 'transition_utc': '2009-12-31T17:00:00', 'expected_items': ['A @ t-60s', 'B @ t']}],
        'rule': 'each (zone, start_year, until_year, sampling interval): real TestDataGenerator run; every library transition inside the range bracketed by A/B (a/b) items at t-60 s and t; 12 monthly + 1 year-end sample per year; every item re-queried from the library; rendered C++ items compiled and read back'})

def replay(path):
    print(open(path).read()); return 0
