"""C05: instant <-> zoned date-time round trip; conversions preserve the instant."""
import runner
from runner import Report, build_driver, run_shards
from dboracle import db_oracle

def run(tier, seed):
    rep = Report('C05', tier, seed, 'exploration')
    exe = build_driver('c05_roundtrip.cpp', 'fast')
    px = db_oracle('zonedbx')[0]; pb = db_oracle('zonedb')[0]
    res = run_shards(exe, ['--oraclex=' + px, '--oracleb=' + pb], tier=tier, seed=seed, timeout=7200)
    rep.absorb(res)
    c = rep.coverage
    rep.assumptions += [
        'domain = instants whose local time stays a day away from +-2^31 (README limit); the rest is counted as outside_documented_domain_not_judged and belongs to C09',
        'database zones are visited on a %s grid (seed-rotated phase) plus t-2..t+2 s around every zic transition, through direct and manager-created TimeZone values of both kinds; expected offsets come from the C01/C02 oracle tables' % ('1 h' if tier == 'thorough' else '6 h'),
        'thorough: every int32 epoch second for 12 fixed offsets (round trips, Unix variants, epoch days on every second; conversions and comparisons on every 61st); quick: 137 offsets on a strided grid, every UTC and local midnight +-1 s, plus boundary windows',
    ]
    return rep.finish(exhaustive=(tier == 'thorough'), extra={
        'evaluations': c.get('instants', 0), 'distinct_nontrivial': c.get('zone_kind_pairs', 0) + c.get('fixed_offsets', 0),
        'rule': 'each (time zone value, instant): forEpochSeconds -> toEpochSeconds/toUnixSeconds/forUnixSeconds/toEpochDays, OffsetDateTime twin, convertToTimeZone into 6 zones of all kinds, convertToTimeOffset into 5 offsets, compareTo against t+1 within and across zones; distinct_nontrivial = distinct time zone values exercised',
    })

def replay(path):
    print(open(path).read()); return 0
