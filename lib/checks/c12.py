"""C12: zone tables are a faithful encoding (C++ decode == value given to the generator; shipped tables == regenerated)."""
import os, re, shutil, tempfile
import runner
from runner import Report
import tabledump

def expected_rule(r):
    def ty(y):
        return 126 if y == 9999 else (-127 if y == 0 else y - 2000)
    return {'fromYearTiny': ty(r['fromYear']), 'toYearTiny': ty(r['toYear']), 'inMonth': r['inMonth'], 'onDayOfWeek': r['onDayOfWeek'], 'onDayOfMonth': r['onDayOfMonth'],
            'atTimeMinutes': r['atSecondsTruncated'] // 60, 'atTimeSuffix': r['atTimeSuffix'], 'deltaMinutes': r['deltaSecondsTruncated'] // 60 if r['deltaSecondsTruncated'] >= 0 else -((-r['deltaSecondsTruncated']) // 60),
            'letter': '' if r['letter'] == '-' and False else r['letter']}

def expected_era(e):
    has_policy = e['rules'] not in ('-', ':')
    d = 0 if has_policy else e['rulesDeltaSecondsTruncated']
    return {'offsetMinutes': e['offsetSecondsTruncated'] // 60 if e['offsetSecondsTruncated'] >= 0 else -((-e['offsetSecondsTruncated']) // 60),
            'deltaMinutes': d // 60 if d >= 0 else -((-d) // 60), 'format': e['format'].replace('%s', '%'),
            'untilYearTiny': 127 if e['untilYear'] == 10000 else e['untilYear'] - 2000, 'untilMonth': e['untilMonth'] or 1, 'untilDay': e['untilDay'] or 1,
            'untilTimeMinutes': e['untilSecondsTruncated'] // 60, 'untilTimeSuffix': e['untilTimeSuffix'], 'has_policy': has_policy}

def compare_decoded(rep, tag, tzdb, dumped, stats):
    zones = {z['name']: z for z in dumped['zones']}
    if set(zones) != set(tzdb['zones_map']):
        rep.violation('c12:%s:zone-set-differs' % tag, {'only_compiled': sorted(set(zones) - set(tzdb['zones_map']))[:5], 'only_generator_input': sorted(set(tzdb['zones_map']) - set(zones))[:5]})
    addr_to_policy = {}
    for name, eras in tzdb['zones_map'].items():
        z = zones.get(name)
        if z is None:
            continue
        if len(z['eras']) != len(eras):
            rep.violation('c12:%s:era-count' % tag, {'zone': name, 'compiled': len(z['eras']), 'given': len(eras)}); continue
        for j, (de, e) in enumerate(zip(z['eras'], eras)):
            ex = expected_era(e)
            stats['eras'] += 1
            for k in ('offsetMinutes', 'deltaMinutes', 'format', 'untilYearTiny', 'untilMonth', 'untilDay', 'untilTimeMinutes', 'untilTimeSuffix'):
                if de[k] != ex[k]:
                    rep.violation('c12:%s:era-field:%s' % (tag, k), {'zone': name, 'era': j, 'source_line': e['rawLine'], 'decoded': de[k], 'given': ex[k]})
            if ex['has_policy'] != (de['policy'] != 0):
                rep.violation('c12:%s:era-policy-presence' % tag, {'zone': name, 'era': j})
            if ex['has_policy']:
                prev = addr_to_policy.setdefault(de['policy'], e['rules'])
                if prev != e['rules']:
                    rep.violation('c12:%s:era-points-to-wrong-policy' % tag, {'zone': name, 'era': j, 'expected': e['rules'], 'same_object_as': prev})
            stats['offsets'].add(de['offsetMinutes']); stats['until'].add((de['untilTimeMinutes'], de['untilTimeSuffix'])); stats['eradelta'].add((de['deltaMinutes'], de['offsetMinutes'] % 15))
            stats['untilyears'].add(de['untilYearTiny']); stats['untilmd'].add((de['untilMonth'], de['untilDay']))
    names_seen = set(addr_to_policy.values())
    if len(names_seen) != len(addr_to_policy):
        rep.violation('c12:%s:two-policy-objects-for-one-name' % tag, {})
    for addr, pname in addr_to_policy.items():
        dp = dumped['policies'].get(addr)
        rules = tzdb['rules_map'].get(pname)
        if dp is None or rules is None:
            rep.violation('c12:%s:policy-missing' % tag, {'policy': pname}); continue
        if len(dp['rules']) != len(rules):
            rep.violation('c12:%s:rule-count' % tag, {'policy': pname, 'compiled': len(dp['rules']), 'given': len(rules)}); continue
        for j, (dr, r) in enumerate(zip(dp['rules'], rules)):
            ex = expected_rule(r)
            stats['rules'] += 1
            for k, v in ex.items():
                if dr[k] != v:
                    rep.violation('c12:%s:rule-field:%s' % (tag, k), {'policy': pname, 'rule': j, 'source_line': r['rawLine'], 'decoded': dr[k], 'given': v})
            stats['at'].add((dr['atTimeMinutes'], dr['atTimeSuffix'])); stats['saves'].add(dr['deltaMinutes']); stats['letters'].add(dr['letter'])
            stats['on'].add((dr['onDayOfWeek'], dr['onDayOfMonth'])); stats['years'].add(dr['fromYearTiny']); stats['years'].add(dr['toYearTiny']); stats['months'].add(dr['inMonth'])
            if len(r['letter']) > 1:
                stats['multiletter'].add((pname, r['letter']))
    if set(tzdb['rules_map']) - names_seen:
        # policies never referenced by an era cannot be reached through the brokers
        stats['unreferenced_policies'] += len(set(tzdb['rules_map']) - names_seen)

def new_stats():
    s = {k: set() for k in ('offsets', 'until', 'eradelta', 'untilyears', 'untilmd', 'at', 'saves', 'letters', 'on', 'years', 'months', 'multiletter')}
    s.update(eras=0, rules=0, unreferenced_policies=0)
    return s

def norm_generated(text):
    out = []
    state = 0   # 0 normal, 1 just saw an "Unsupported ..." heading (its closing rule follows), 2 skipping the entries of that section
    for l in text.splitlines():
        if l.strip() in ('//', ''):
            continue
        if 'tzcompiler.py' in l or 'github.com' in l or 'generated by the following script' in l or 'using the TZ Database files' in l or re.match(r'//\s+africa, antarctica', l) or re.match(r'//\s+\$ ', l):
            continue
        # the lists of unsupported zones / links / policies depend on the full TZ release, which the recorded lines do not contain
        if re.match(r'// Unsupported (zone|link)', l):
            if out and out[-1].startswith('//-----'):
                out.pop()
            state = 1
            continue
        if state == 1:
            state = 2
            if l.startswith('//-----'):
                continue
        if state == 2:
            if l.startswith('//') and not l.startswith('//-----'):
                continue
            state = 0
        if l.lstrip().startswith('//'):
            l = ' '.join(l.split())
        out.append(l.rstrip())
    return out

def run(tier, seed):
    from pyexp import pipeline, codec_source
    from oracle import tzsrc
    rep = Report('C12', tier, seed, 'exploration')
    cov = {}
    # ---------- (a) codec product through the real pipeline + generator + brokers
    for scope in ('extended', 'basic'):
        text, meta = codec_source.build(scope)
        comp = pipeline.compile_text(text, scope, tz_version='codec')
        if comp.removed_zones or comp.removed_policies:
            rep.violation('c12:codec-%s:source-not-fully-accepted' % scope, {'removed_zones': len(comp.removed_zones), 'removed_policies': len(comp.removed_policies), 'example': str(list(comp.removed_zones.items())[:1] + list(comp.removed_policies.items())[:1])[:300]})
        d = tempfile.mkdtemp(prefix='verif-c12-')
        try:
            pipeline.generate(comp, 'arduino', d, db_namespace='vdb', buf_sizes={z: 7 for z in comp.tzdb['zones_map']})
            try:
                dumped = tabledump.dump(d, 'vdb', scope == 'extended')
            except runner.Broken as e:
                # the generated tables must compile with the compiler's default diagnostics (no -w, no -fpermissive)
                m = re.search(r'error: ([^\n]*)', str(e))
                rep.violation('c12:codec-%s:generated-tables-do-not-compile' % scope, {'first_error': m.group(1)[:200] if m else str(e)[-400:], 'compiler_output_tail': str(e)[-1200:]})
                dumped = tabledump.dump(d, 'vdb', scope == 'extended', strict=False)
        finally:
            shutil.rmtree(d, ignore_errors=True)
        st = new_stats()
        compare_decoded(rep, 'codec-' + scope, comp.tzdb, dumped, st)
        # coverage of the intended product
        ext = scope == 'extended'
        want_at = {(t, s) for t in range(1501) for s in 'wsu'}
        miss = {
            'AT': len(want_at - st['at']),
            'STDOFF': len(set(range(-720, 841, 1 if ext else 15)) - st['offsets']),
            'UNTIL-time': len(want_at - st['until']) if ext else 0,
            'era-delta x minute-remainder': len({(d_, r) for d_ in range(-60, 166, 15) for r in range(15)} - st['eradelta']) if ext else 0,
            'rule SAVE': len(set(range(-60, 166, 15)) - st['saves']) if ext else len({0, 30, 60, 90, 120} - st['saves']),
            'months': len(set(range(1, 13)) - st['months']) if ext else 0,
            'single letters': len(set(['-'] + [chr(c) for c in range(65, 91)] + [chr(c) for c in range(97, 123)]) - st['letters']),
        }
        for k, v in miss.items():
            if v:
                rep.violation('c12:codec-%s:product-not-covered' % scope, {'field': k, 'missing_values': v})
        cov['%s_eras' % scope] = st['eras']; cov['%s_rules' % scope] = st['rules']
        cov['%s_distinct_values' % scope] = sum(len(st[k]) for k in ('offsets', 'until', 'eradelta', 'at', 'saves', 'letters', 'on', 'years', 'untilyears', 'untilmd'))
        cov['%s_multichar_letters' % scope] = len(st['multiletter'])
    # letter codes must stay below 32 (printable characters start there): 33 multi-character letters in one policy must be refused, 32 are accepted (covered above)
    rules = ''.join('Rule\tM\t%d\tonly\t-\tMar\t%d\t2:00\t%s\tLL%02d\n' % (2001 + q, 1 + q % 28, '1:00' if q % 2 else '0', q) for q in range(33))
    comp = pipeline.compile_text(rules + 'Zone\tV/M\t1:00\tM\tC%sT\n', 'extended')
    d = tempfile.mkdtemp(prefix='verif-c12-')
    try:
        try:
            pipeline.generate(comp, 'arduino', d, db_namespace='vdb', buf_sizes={z: 7 for z in comp.tzdb['zones_map']})
            if 'V/M' in comp.tzdb['zones_map']:
                rep.violation('c12:33-multichar-letters-not-refused', {})
        except Exception:
            pass
    finally:
        shutil.rmtree(d, ignore_errors=True)
    # ---------- (b) shipped tables == what the generator produces from their recorded lines
    for db, scope in (('zonedbx', 'extended'), ('zonedb', 'basic')):
        dbdir = os.path.join(runner.REPO, 'src/ace_time', db)
        text, zones, links = tzsrc.reconstruct_cpp(dbdir)
        shipped = tabledump.dump(dbdir, db, scope == 'extended')
        comp = pipeline.compile_text(text, scope, start_year=shipped['db']['startYear'], until_year=shipped['db']['untilYear'], tz_version=shipped['db']['tzVersion'])
        st = new_stats()
        compare_decoded(rep, 'shipped-' + db, comp.tzdb, shipped, st)
        cov['%s_shipped_eras' % db] = st['eras']; cov['%s_shipped_rules' % db] = st['rules']
        d = tempfile.mkdtemp(prefix='verif-c12-')
        try:
            pipeline.generate(comp, 'arduino', d, db_namespace=db)
            for fn in ('zone_infos.cpp', 'zone_infos.h', 'zone_policies.cpp', 'zone_policies.h', 'zone_registry.cpp', 'zone_registry.h'):
                a = norm_generated(open(os.path.join(d, fn)).read()); b = norm_generated(open(os.path.join(dbdir, fn)).read())
                cov['%s_text_lines' % db] = cov.get('%s_text_lines' % db, 0) + len(b)
                if a != b:
                    import difflib
                    diff = [l for l in difflib.unified_diff(b, a, 'shipped', 'regenerated', lineterm='', n=0)][:12]
                    rep.violation('c12:shipped-%s:text-differs:%s' % (db, fn), {'diff_head': diff})
        finally:
            shutil.rmtree(d, ignore_errors=True)
        if comp.removed_zones or set(comp.zones_map) != set(zones):
            rep.violation('c12:shipped-%s:recorded-lines-not-reaccepted' % db, {'removed': sorted(comp.removed_zones)[:5]})
    rep.coverage.update(cov)
    ev = sum(v for k, v in cov.items() if k.endswith('_eras') or k.endswith('_rules'))
    rep.assumptions += ['(a) the synthetic source is written in the documented TZ layout and passes through the real Extractor and Transformer, so "value given to the generator" = the transformer output handed to ArduinoGenerator; the generated C++ is compiled against /repo/src and read back through the brokers',
                        'expected decode is stated independently here (minutes = seconds/60, tiny year = year-2000 with 0/9999/10000 sentinels, %s -> %), not taken from argenerator',
                        'FROM/TO tiny years are covered for 1980..2087 + MIN/MAX sentinels (what the pipeline can emit for a 2000..2050 window), not 1873..2127',
                        '(b) generated text compared line by line after dropping the invocation/URL header lines and collapsing whitespace inside // comments']
    return rep.finish(exhaustive=True, extra={'evaluations': ev, 'distinct_nontrivial': cov.get('extended_distinct_values', 0) + cov.get('basic_distinct_values', 0),
        'samples': [{'rule_line': 'Rule A0 1980 max - Jan 1 0:00 0 -', 'decoded': {'atTimeMinutes': 0, 'atTimeSuffix': 'w'}}, {'era_line': '-12:00 A0 S/D 2001 Jan 1 0:00', 'decoded': {'offsetMinutes': -720}}],
        'rule': 'full product per encoded field (AT/UNTIL 0:00..25:00 x w/s/u, STDOFF every minute -12:00..+14:00, era DST shift x minute remainder, 16 SAVE values, months, all admitted ON expressions, single and multi-character letters) x {basic, extended}; every era and rule of the shipped zonedb/zonedbx'})

def replay(path):
    print(open(path).read()); return 0
