HOOKS = {
    'guard': 'SEANDST_ACETIME_VERIF',
    'enable': 'bin/check exports SEANDST_ACETIME_VERIF=1 and compiles /repo/src with -DSEANDST_ACETIME_VERIF=1',
    'baseline_off_cmd': 'cd /repo && env -u SEANDST_ACETIME_VERIF /venv/bin/python -m pytest -ra -q -p no:cacheprovider --timeout=900 --continue-on-collection-errors',
    'source_commits': [],
    'add_only': True,
}
ENGINES = [
    {'name': 'cxx-sweep', 'path': 'cxx/common/verif.h + lib/runner.py',
     'serves_properties': ['C06'],
     'kind_free_text': 'sharded exhaustive enumeration of a finite input domain, executed on the real C++ classes built from /repo/src through an Arduino shim'},
]
NOTES = ('All checks execute the real implementation built from /repo working tree (C++ via cxx/shim, Python via sys.path). '
         'exit 2 = machinery broken (build/oracle), never used for property verdicts.')
NOT_APPLICABLE = {}
CHECKS = {
    'C06': dict(engine='cxx-sweep', category='exploration', technique='bounded-exhaustive enumeration of the input domain on the real code (explicit-state, no sampling in thorough tier)',
                text='Every date 1873..2127, every int16 year, every 2^24 byte triple for dates and times, and every int32 epoch second (thorough; stride 17 + boundaries in quick) is executed on the real LocalDate/LocalTime/LocalDateTime and compared with CPython datetime and an independent 64-bit Gregorian implementation. The quantifier is finite, so the thorough tier is complete.',
                note='trusts g++ on LP64, the Arduino shim (PROGMEM = plain memory), CPython datetime; the first calendar day above -2^31 is left to C09 (signed overflow inside the library).'),
}
