HOOKS = {
    'guard': 'SEANDST_ACETIME_VERIF',
    'enable': 'bin/check exports SEANDST_ACETIME_VERIF=1 and compiles /repo/src with -DSEANDST_ACETIME_VERIF=1',
    'baseline_off_cmd': 'cd /repo && env -u SEANDST_ACETIME_VERIF /venv/bin/python -m pytest -ra -q -p no:cacheprovider --timeout=900 --continue-on-collection-errors',
    'source_commits': ['0bb50f5', 'c74bfcc', 'bee90b8'],
    'add_only': True,
}
ENGINES = [
    {'name': 'cxx-history', 'path': 'cxx/common/mc.h + cxx/common/isolate.h + lib/runner.py',
     'serves_properties': ['C08', 'C09', 'C10', 'C13'],
     'kind_free_text': 'explicit-state / small-scope exploration of operation histories on freshly constructed real objects (bounds-checking brokers, step counters, forked isolation under ASan/UBSan)'},
    {'name': 'cxx-sweep', 'path': 'cxx/common/verif.h + lib/runner.py',
     'serves_properties': ['C01', 'C02', 'C06', 'C07'],
     'kind_free_text': 'sharded exhaustive enumeration of a finite input domain, executed on the real C++ classes built from /repo/src through an Arduino shim'},
]
NOTES = ('All checks execute the real implementation built from /repo working tree (C++ via cxx/shim, Python via sys.path). '
         'exit 2 = machinery broken (build/oracle), never used for property verdicts.')
NOT_APPLICABLE = {}
CHECKS = {
    'C06': dict(engine='cxx-sweep', category='exploration', technique='bounded-exhaustive enumeration of the input domain on the real code (explicit-state, no sampling in thorough tier)',
                text='Every date 1873..2127, every int16 year, every 2^24 byte triple for dates and times, and every int32 epoch second (thorough; stride 17 + boundaries in quick) is executed on the real LocalDate/LocalTime/LocalDateTime and compared with CPython datetime and an independent 64-bit Gregorian implementation. The quantifier is finite, so the thorough tier is complete.',
                note='trusts g++ on LP64, the Arduino shim (PROGMEM = plain memory), CPython datetime; the first calendar day above -2^31 is left to C09 (signed overflow inside the library).'),
    'C01': dict(engine='cxx-sweep', category='exploration', technique='bounded-exhaustive enumeration of every instant (per-second in thorough) on the real processor vs zic oracle',
                text='Every zone of the compiled zonedbx registry is queried through the real TimeZone/ExtendedZoneProcessor at every minute of 2000..2049 plus t-2..t+2 s around every zic breakpoint and UTC year boundary (quick), or at every second (thorough: the literal quantifier, 6.1e11 instants), and compared with the table zic derives from the Zone/Rule lines recorded beside the shipped entries. ZonedDateTime fields are compared with independently shifted UTC fields.',
                note='trusts zic/zdump (glibc 2.36), CPython zoneinfo (three-way cross-check of the oracle on every run), the Arduino shim; history-independence of the year cache is C08.'),
    'C02': dict(engine='cxx-sweep', category='exploration', technique='bounded-exhaustive enumeration of every instant on the real basic processor vs zic oracle and vs the extended processor',
                text='Same sweep as C01 over the 268 zonedb zones through BasicZoneProcessor, against zic on zonedb\'s own recorded lines, and at every visited instant against ExtendedZoneProcessor on the same-named zonedbx zone. The guarded hook reports transitions dropped by addTransition.',
                note='as C01; the dropped-transition counter is diagnostic here and a requirement in C09.'),
    'C07': dict(engine='cxx-sweep', category='exploration', technique='bounded-exhaustive enumeration of all wall-clock minutes around every transition, oracle pre-image sets',
                text='Both processors x every zone x every zic transition of 2000..2049 x every wall-clock minute within 200 min of it (all gap and overlap minutes) plus a regular wall-clock grid: ZonedDateTime::forComponents is compared with the exact pre-image set computed from the zic table (unique -> identity, overlap -> an occurrence / the later for extended, gap -> pre-gap offset) and must be normalised.',
                note='same oracle trust as C01; the quantifier (minutes near transitions) is finite and completely enumerated, far-from-transition wall times are covered by the grid only.', thorough=True),
    'C10': dict(engine='cxx-history', category='model_checking', technique='small-scope exhaustive exploration: every registry of size 0..40 x every lookup, on the real templates with bounds-checking broker and step counter',
                text='All registries of size 0..40 drawn from the shipped zones (3 sorted bases x sorted / reversed / rotated / every adjacent swap, both databases) x every present name, absent names below / between every adjacent pair / above, prefixes, extensions, case changes, every id and id+-1, every index 0..n+1 and 0xFFFF are looked up through the real ZoneManagerImpl/ZoneRegistrar templates instantiated with a registry broker that traps any slot index >= n and a comparator that traps after 4n+64 comparisons, compared with a linear scan. The protected binary/linear searches are also called directly on every sorted registry (below the size-6 threshold too). The stock manager typedefs are then driven on the two full registries and selected sizes in forked children under ASan with a watchdog.',
                note='registries with duplicate names are not enumerated; sizes above 40 only through the two shipped registries (387, 268).', thorough=False),
    'C08': dict(engine='cxx-history', category='model_checking', technique='explicit-state BFS over query histories on the real cache/binding automata with canonical-state deduplication, fresh-object oracle',
                text='The hidden state behind the value-like API (per-processor year cache, processor<->zone binding, manager round-robin cache) is explored as an automaton on the real objects: every zone with its own processor (6 calls x 57 argument classes, to fixpoint = histories of any length), 2-3 TimeZone values sharing one processor, and zone managers with 1..4 slots holding more zones than slots, plus the Python ZoneSpecifier over every ordered year pair. Every transition is compared with the same call on a fresh object.',
                note='argument classes are one instant/local time per year plus sentinels, not every instant (C01 covers instants); the canonical key is the complete cache content read through friend names and two read-only guarded hooks.'),
    'C09': dict(engine='cxx-history', category='model_checking', technique='explicit-state history exploration + exhaustive boundary-domain sweeps on the real code under ASan/UBSan',
                text='The C08 worlds are re-explored with hostile argument classes under AddressSanitizer (abort) and UndefinedBehaviorSanitizer (every distinct site reported), checking that out-of-range queries give the documented error value on a fresh object and every time they are repeated in any explored history; plus sweeps of every public factory/accessor over int32 epoch values, boundary component tuples, all int16 offsets/years, parser inputs of every length on exact-size heap strings, and the transition-buffer high-water mark / basic cache slots for every shipped zone and year 1999..2050.',
                note='host LP64 only; int32 epoch sweep is strided (65521 quick / 251 thorough) plus dense windows at 12 boundaries; 15 known findings (signed overflow at the int32 extremes, unvalidated table index in dayOfWeek/daysInMonth) are listed in known_findings.json.'),
    'C13': dict(engine='cxx-history', category='model_checking', technique='exhaustive enumeration of the clock automaton\'s one-step transition relation + explicit-state BFS of set/poll histories against a reference model',
                text='The SystemClock state that matters is mPrevMillis mod 2^16 (the epoch is additive). The complete transition relation - every mPrevMillis value x every distance 0..65535 to the next poll - is executed on the real class with the invariant (reading = T + floor(D/1000), mPrevMillis advanced by whole seconds) checked on each, which by induction covers every polling schedule with gaps <= 64,536 ms; explicit multi-step schedules straddle 2^16 and 2^32 of the injected 64-bit counter; a BFS over histories of settings (equal, smaller, larger, sentinel) and polls is compared with a reference model.',
                note='quick tier covers every 17th phase (+ boundary phases); 32-bit unsigned long targets are represented by injecting counter values around 2^32, the class itself only uses the low 16 bits.'),
}
