"""C14 companion: TLC explores the TLA+ model of the sync FSM (tla/SyncLoop.tla) exhaustively and checks the
invariants on the model; every edge of the dumped state graph is then replayed against the real SystemClockLoop."""
import os, re, subprocess, tempfile, shutil, collections
import runner

def run_tlc():
    """-> (nodes{id: vars}, edges[(src, dst, d, ans)], init_id, tlc_summary)"""
    d = tempfile.mkdtemp(prefix='verif-tlc-')
    try:
        for f in ('SyncLoop.tla', 'SyncLoop.cfg'):
            shutil.copy(os.path.join(runner.VERIF, 'tla', f), d)
        r = subprocess.run(['tlc', '-workers', '4', '-noGenerateSpecTE', '-metadir', os.path.join(d, 'meta'), '-deadlock', '-dump', 'dot,actionlabels', os.path.join(d, 'graph'), 'SyncLoop.tla'],
                           cwd=d, stdout=subprocess.PIPE, stderr=subprocess.STDOUT, text=True, timeout=1800)
        out = r.stdout
        if 'Error:' in out or 'is violated' in out:
            m = re.search(r'Invariant (\w+) is violated', out)
            return None, None, None, {'model_invariant_violated': m.group(1) if m else 'unknown', 'tlc_tail': out[-1500:]}
        m = re.search(r'(\d+) states generated, (\d+) distinct states found, (\d+) states left on queue', out)
        if not m or m.group(3) != '0':
            raise runner.Broken('TLC did not finish the state graph: ' + out[-800:])
        dot = open(os.path.join(d, 'graph.dot')).read()
    finally:
        shutil.rmtree(d, ignore_errors=True)
    nodes, edges, init = {}, [], None
    for mm in re.finditer(r'^(-?\d+) \[label="((?:[^"\\]|\\.)*)"(,style = filled)?', dot, re.M):
        nid, label, filled = mm.group(1), mm.group(2), mm.group(3)
        v = {}
        for part in label.split('\\n'):
            pm = re.match(r'/\\\\ (\w+) = (.*)$', part)
            if pm:
                v[pm.group(1)] = pm.group(2).replace('\\"', '"')
        nodes[nid] = v
        if filled:
            init = nid
    for mm in re.finditer(r'^(-?\d+) -> (-?\d+) \[label="Step\((\d+),\\"(\w+)\\"\)"', dot, re.M):
        edges.append((mm.group(1), mm.group(2), int(mm.group(3)), mm.group(4)))
    return nodes, edges, init, {'generated': int(m.group(1)), 'distinct': int(m.group(2))}

def trace_file(nodes, edges, init, path):
    """one line per model edge: the event path from Init (BFS tree) + the edge's event + the model's successor state"""
    succ = collections.defaultdict(list)
    for (s, t, d, a) in edges:
        succ[s].append((t, d, a))
    pathto = {init: []}
    q = collections.deque([init])
    while q:
        s = q.popleft()
        for (t, d, a) in succ[s]:
            if t not in pathto:
                pathto[t] = pathto[s] + [(d, a)]
                q.append(t)
    n = 0
    with open(path, 'w') as f:
        for (s, t, d, a) in edges:
            if s not in pathto:
                continue
            ev = pathto[s] + [(d, a)]
            v = nodes[t]
            f.write('%s | %s %s %s %s %d %d %d\n' % (' '.join('%d,%s' % e for e in ev), v['status'].strip('"'), v['periodS'], v['reqAge'], v['syncAge'],
                                                    1 if v['sent'] == 'TRUE' else 0, 1 if v['applied'] == 'TRUE' else 0, 1 if v['everSent'] == 'TRUE' else 0))
            n += 1
    return n, max(len(p) for p in pathto.values()) + 1
