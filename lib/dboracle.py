"""Oracle tables for the shipped databases: zic applied to the Zone/Rule lines recorded beside each table entry."""
import os
import runner
from oracle import tzsrc, zicrun

def db_oracle(db):
    """db in {'zonedb','zonedbx'} -> (table_path, zones, links, tables)"""
    d = os.path.join(runner.REPO, 'src/ace_time', db)
    text, zones, links = tzsrc.reconstruct_cpp(d)
    if not zones:
        raise runner.Broken('no zones reconstructed from ' + d)
    tabs = zicrun.compile_text(text, zones, tag=db)
    import hashlib
    h = hashlib.sha256(text.encode()).hexdigest()[:12]
    p = os.path.join(runner.BUILD, 'oracle-%s-%s.txt' % (db, h))
    os.makedirs(runner.BUILD, exist_ok=True)
    if not os.path.exists(p):
        zicrun.write_tables(tabs, zones, p)
    return p, zones, links, tabs, text
